# ./check <property|all> [--tier quick|thorough] [--job substr] [--keep] [--list]
import json, os, sys, time, re, argparse, concurrent.futures as cf
from . import core
from .core import VERIF, run_job
from . import registry, replay as replay_mod

FUNCTIONAL_EXCLUDE = {"C11", "C18", "C12"}


def relevant(ob, job, prop):
    """is a failed/successful obligation of this job an obligation of property `prop`? (DESIGN 7.1)"""
    if ob["props"]:
        return prop in ob["props"]
    cls = ob["cls"]
    S = set(job.props)
    if cls == "frame":
        t = S & {"C18", "C11", "C08", "C12"}
        return prop in (t or S)
    if cls == "mem":
        t = S & {"C11"}
        return prop in (t or S)
    if cls == "native":
        return prop in S
    if cls in ("post", "assert"):
        t = S - FUNCTIONAL_EXCLUDE
        return prop in (t or S)
    # loop, pre, unwind, ub, other: proof-structure obligations, they carry every property of the job
    return prop in S


def load_known():
    p = os.path.join(VERIF, "known_findings.json")
    if not os.path.exists(p):
        return {"findings": [], "fixed": []}
    return json.load(open(p))


def match_known(known, prop, ob):
    for k in known.get("findings", []):
        if k["property"] != prop and prop not in k.get("also_reported_under", []):
            continue
        if k.get("job") and k["job"] != ob["job"]:
            continue
        if k.get("obligation_re") and not re.search(k["obligation_re"], ob["name"] + " " + ob["desc"] + " " + (ob["tag"] or "")):
            continue
        return k
    return None


def main(argv=None):
    ap = argparse.ArgumentParser()
    ap.add_argument("prop")
    ap.add_argument("--tier", default=os.environ.get("VERIF_TIER", "quick"))
    ap.add_argument("--job", default=None)
    ap.add_argument("--keep", action="store_true")
    ap.add_argument("--list", action="store_true")
    ap.add_argument("-j", type=int, default=int(os.environ.get("VERIF_JOBS", "16")))
    ap.add_argument("--no-evidence", action="store_true")
    ap.add_argument("--replay", default=None)
    ap.add_argument("--timeout", type=int, default=None, help="override every job's timeout (probing)")
    a = ap.parse_args(argv)
    if a.replay:
        return replay_mod.rerun(a.replay)
    seed = int(os.environ.get("VERIF_SEED", "0") or 0)
    tier = a.tier if a.tier in ("quick", "thorough") else "quick"
    props = registry.CLAIMED if a.prop == "all" else [a.prop]
    rc_all = 0
    for prop in props:
        rc = check_prop(prop, tier, seed, a)
        rc_all = max(rc_all, rc) if rc != 1 and rc_all != 1 else 1
    return rc_all


def check_prop(prop, tier, seed, a):
    t0 = time.time()
    jobs = registry.jobs_for(prop, tier, seed)
    if a.job:
        # a job named explicitly may also be one kept in no tier ("manual")
        # (only on request, VERIF_MANUAL=1: a regex over a family must not drag the unregistered siblings into a registered run)
        pool = jobs + ([j for j in registry.all_jobs(seed) if prop in j.props and j.tier == "manual"] if (tier == "thorough" and os.environ.get("VERIF_MANUAL") == "1") else [])
        jobs = [j for j in pool if re.search(a.job, j.name)]
    if a.timeout:
        for j in jobs:
            j.timeout = a.timeout
    if a.list:
        for j in jobs:
            print(j.name, j.shape, j.solver, ",".join(j.props))
        print(len(jobs), "jobs")
        return 0
    if not jobs:
        print("UNDECIDED property=%s reason=no jobs registered" % prop)
        return 2
    os.makedirs(core.BUILD, exist_ok=True)
    core.reset_source_cache()
    # heavier jobs first
    jobs.sort(key=lambda j: -j.timeout if j.solver != "race" else -2 * j.timeout)
    results = []
    workers = max(1, a.j)
    with cf.ThreadPoolExecutor(max_workers=workers) as ex:
        futs = {ex.submit(run_job, j, a.keep): j for j in jobs}
        for f in cf.as_completed(futs):
            R = f.result()
            results.append(R)
            sys.stderr.write("[%s] %-60s %-9s %6.1fs %s %s\n" % (prop, R.job.name, R.status, R.wall, R.solver, R.reason[:200]))
            sys.stderr.flush()
    known = load_known()
    violations = []
    knowns = []
    undecided = [R for R in results if R.status == "undecided"]
    counts = {"S1": 0, "S2": 0, "S3": 0, "S4": 0, "S5": 0, "S6": 0, "S7": 0}
    disc = dict(counts)
    samples = []
    functions = set()
    by_solver = {}
    solver_time = 0.0
    waived = []
    for R in results:
        solver_time += R.wall
        functions.update(R.job.functions)
        by_solver[R.solver] = by_solver.get(R.solver, 0) + 1
        for ob in R.waived:
            waived.append("%s: %s (%s)" % (R.job.name, ob["desc"], ob["name"]))
        for ob in R.obligations:
            if not relevant(ob, R.job, prop):
                continue
            counts[R.job.shape] = counts.get(R.job.shape, 0) + 1
            if ob["status"] == "SUCCESS":
                disc[R.job.shape] = disc.get(R.job.shape, 0) + 1
                if ob["tag"] and len(samples) < 12:
                    samples.append({"job": R.job.name, "obligation": ob["tag"], "cbmc_name": ob["name"],
                                    "shape": R.job.shape, "status": "SUCCESS", "backend": R.solver})
            else:
                k = match_known(known, prop, ob)
                if k:
                    knowns.append((k, ob))
                else:
                    violations.append((R, ob))
    # ---- report
    rc = 0
    seen_known = set()
    for k, ob in knowns:
        if k["id"] in seen_known:
            continue
        seen_known.add(k["id"])
        print("KNOWN-FINDING: property=%s %s" % (prop, k["what"]))
    if violations:
        rc = 1
        groups = {}
        for R, ob in violations:
            groups.setdefault((R.job.name, ob["tag"] or ob["cls"]), []).append((R, ob))
        for (jn, tg), lst in groups.items():
            R, ob = lst[0]
            path, found = replay_mod.make_replay(prop, R, [o for _, o in lst])
            line = "VIOLATION property=%s replay=%s" % (prop, path)
            if not found:
                line += " obligation=%s/%s no-failing-input-found" % (jn, tg)
            print(line)
            sys.stderr.write("  failed obligation %s :: %s (%s) [%s]\n" % (jn, ob["name"], ob["desc"], tg))
    if undecided and rc == 0:
        rc = 2
        for R in undecided:
            print("UNDECIDED property=%s job=%s reason=%s" % (prop, R.job.name, R.reason[:300]))
    wall = time.time() - t0
    if not a.no_evidence and not a.job:
        proved_shapes = ("S1", "S2", "S3", "S6")
        obligations = sum(counts[s] for s in proved_shapes)
        discharged = sum(disc[s] for s in proved_shapes)
        level = registry.LEVEL.get(prop, "proof")
        cov = {
            "obligations": obligations,
            "discharged": discharged,
            "checker_cmd": "goto-cc -c <repo sources>; goto-instrument --dfcc <harness> --enforce-contract f/f__c "
                           "--replace-call-with-contract g/g__c --loop-contracts-file <generated> --apply-loop-contracts; "
                           "cbmc --json-ui [--external-sat-solver kissat]   (one run per job, see jobs)",
            "trusted_base": registry.trusted_base(prop, results, waived),
            "obligations_by_shape": counts,
            "discharged_by_shape": disc,
            "bounded_obligations": counts.get("S4", 0),
            "bounded_discharged": disc.get("S4", 0),
            "concrete_obligations": counts.get("S5", 0) + counts.get("S7", 0),
            "jobs": [{"job": R.job.name, "shape": R.job.shape, "status": R.status, "backend": R.solver,
                      "wall_s": round(R.wall, 1), "obligations": len(R.obligations),
                      "failed": len(R.failed), "bound": R.job.bound_note, "reason": R.reason[:200]}
                     for R in sorted(results, key=lambda r: r.job.name)],
            "functions_under_contract": sorted(functions),
            "backends": by_solver,
            "solver_wall_s_sum": round(solver_time, 1),
            "samples": samples or [{"note": "no tagged obligation in this run"}],
            "explanation": registry.EXPLAIN.get(prop, ""),
            "waived_by_name": sorted(set(waived))[:40],
            "known_findings_reported": sorted(seen_known),
            "undecided_jobs": [R.job.name for R in undecided],
        }
        ev = {"property_id": prop, "tier": tier, "seed": seed, "level": level, "coverage": cov,
              "assumptions": registry.assumptions(prop), "wall_s": round(wall, 1),
              "violations": len(violations)}
        os.makedirs(os.path.join(VERIF, "evidence"), exist_ok=True)
        json.dump(ev, open(os.path.join(VERIF, "evidence", prop + ".json"), "w"), indent=1)
    print("%s property=%s tier=%s jobs=%d obligations=%d discharged=%d bounded=%d/%d undecided=%d violations=%d wall=%.0fs"
          % ("PASS" if rc == 0 else ("FAIL" if rc == 1 else "UNDECIDED"), prop, tier, len(results),
             sum(counts[s] for s in ("S1", "S2", "S3", "S6")), sum(disc[s] for s in ("S1", "S2", "S3", "S6")),
             disc.get("S4", 0), counts.get("S4", 0), len(undecided), len(violations), wall))
    return rc


if __name__ == "__main__":
    rc = 2
    try:
        rc = main()
    finally:
        import shutil
        if not any(x == "--keep" for x in sys.argv):
            shutil.rmtree(core.BUILD, ignore_errors=True)
    sys.exit(rc)
