# Jobs for spqlios/coeffs/coeffs_arithmetic.c : element kernels and the normalization primitive (S1)
from .core import Job

SRC = ["coeffs/coeffs_arithmetic.c"]
H = "coeffs.c"
NOOVF = ["--no-signed-overflow-check"]
# get_base_k_digit uses (x << (64-k)) >> (64-k) on negative x: gcc-defined sign-extension idiom; a failing built-in
# check would turn every downstream obligation UNKNOWN, so the check is off and the RESULT of the idiom is pinned by the posts
NOSHIFT = ["--no-undefined-shift-check"]   # DESIGN 4.2: element loops use wrap semantics; posts are exact

LE = "__CPROVER_loop_entry"


def wadd(a, b):
    return "(long)((unsigned long)(%s) + (unsigned long)(%s))" % (a, b)


def wsub(a, b):
    return "(long)((unsigned long)(%s) - (unsigned long)(%s))" % (a, b)


def wneg(a):
    return "(long)(0ul - (unsigned long)(%s))" % a


def elementwise_loop(value_expr, srcs, idx="i", n="nn", res="res"):
    """invariant of `for (i=0;i<nn;++i) res[i] = f(src[i])` with ghost index G and any aliasing"""
    keep = " && ".join("%s[G] == %s(%s[G])" % (s, LE, s) for s in srcs)
    inv = "%s <= %s && (G < %s ==> %s[G] == %s) && (G >= %s ==> (%s))" % (idx, n, idx, res, value_expr, idx, keep)
    return {"assigns": "%s, __CPROVER_object_upto(%s, %s * 8)" % (idx, res, n), "invariants": inv,
            "decreases": "%s - %s" % (n, idx)}


def jobs():
    J = []
    la = dict(elementwise_loop(wadd(LE + "(a[G])", LE + "(b[G])"), ["a", "b"]), id=0)
    J.append(Job(name="coeffs.znx_add_i64_ref", props=["C08", "C13", "C11", "C18", "C15", "C07"], shape="S1",
                 sources=SRC, harness=H, entry="h_znx_add_i64_ref",
                 enforce=[("znx_add_i64_ref", "znx_add__c")], loops={"znx_add_i64_ref": {"count": 1, "loops": [la]}},
                 cbmc_flags=NOOVF, functions=["znx_add_i64_ref"],
                 replay={"driver": "znx_elem", "fn": "znx_add_i64_ref", "op": "add"}))
    ls = dict(elementwise_loop(wsub(LE + "(a[G])", LE + "(b[G])"), ["a", "b"]), id=0)
    J.append(Job(name="coeffs.znx_sub_i64_ref", props=["C08", "C13", "C11", "C18", "C15", "C07"], shape="S1",
                 sources=SRC, harness=H, entry="h_znx_sub_i64_ref",
                 enforce=[("znx_sub_i64_ref", "znx_sub__c")], loops={"znx_sub_i64_ref": {"count": 1, "loops": [ls]}},
                 cbmc_flags=NOOVF, functions=["znx_sub_i64_ref"],
                 replay={"driver": "znx_elem", "fn": "znx_sub_i64_ref", "op": "sub"}))
    ln = dict(elementwise_loop(wneg(LE + "(a[G])"), ["a"]), id=0)
    J.append(Job(name="coeffs.znx_negate_i64_ref", props=["C08", "C13", "C11", "C18", "C15", "C07"], shape="S1",
                 sources=SRC, harness=H, entry="h_znx_negate_i64_ref",
                 enforce=[("znx_negate_i64_ref", "znx_negate__c")],
                 loops={"znx_negate_i64_ref": {"count": 1, "loops": [ln]}},
                 cbmc_flags=NOOVF, functions=["znx_negate_i64_ref"],
                 replay={"driver": "znx_elem", "fn": "znx_negate_i64_ref", "op": "neg"}))
    for al in (0, 1):
        J.append(Job(name="coeffs.znx_copy_i64_ref.alias%d" % al, props=["C08", "C13", "C11", "C18", "C15"], shape="S1",
                     sources=SRC, harness=H, entry="h_znx_copy_i64_ref", defines={"COPY_ALIAS": al},
                     enforce=[("znx_copy_i64_ref", "znx_copy__c")], functions=["znx_copy_i64_ref"],
                     waive=[r"memcpy src/dst overlap"] if al else [],
                     bound_note="a==res exactly" if al else "a, res separate",
                     replay={"driver": "znx_elem", "fn": "znx_copy_i64_ref", "op": "copy"}))
    J.append(Job(name="coeffs.znx_zero_i64_ref", props=["C08", "C11", "C15"], shape="S1",
                 sources=SRC, harness=H, entry="h_znx_zero_i64_ref",
                 enforce=[("znx_zero_i64_ref", "znx_zero__c")], functions=["znx_zero_i64_ref"],
                 replay={"driver": "znx_elem", "fn": "znx_zero_i64_ref", "op": "zero"}))
    J += normalize_jobs()
    J += lemma_jobs()
    J += avx_elem_jobs()
    return J


# ---------------------------------------------------------------------------------------------
# znx_normalize: six loops, one per (out, carry_in, carry_out) presence pattern

def P2(e):
    return "(((__int128)1) << (%s))" % e


def normalize_jobs():
    k = "base_k"
    x_cin = "((__int128)%s(in[G]) + (__int128)%s(carry_in[G]))" % (LE, LE)
    x_nocin = "((__int128)%s(in[G]))" % LE
    bal = lambda v: "(-%s <= (%s) && (%s) < %s)" % (P2(k + " - 1"), v, v, P2(k + " - 1"))
    cbound = "(-%s <= carry_out[G] && carry_out[G] <= %s)" % (P2(62), P2(62))
    co = "(((__int128)carry_out[G]) << %s)" % k

    def inv(post, keep):
        return "i <= nn && (G < i ==> (%s)) && (G >= i ==> (%s))" % (post, keep)
    keep_cin = "in[G] == %s(in[G]) && carry_in[G] == %s(carry_in[G])" % (LE, LE)
    keep_in = "in[G] == %s(in[G])" % LE
    A_oc = "i, __CPROVER_object_upto(out, nn * 8), __CPROVER_object_upto(carry_out, nn * 8)"
    A_o = "i, __CPROVER_object_upto(out, nn * 8)"
    A_c = "i, __CPROVER_object_upto(carry_out, nn * 8)"
    dec = "nn - i"
    def DIG(x):
        return "((((%s) + %s) & (%s - 1)) - %s)" % (x, P2(k + " - 1"), P2(k), P2(k + " - 1"))

    def CAR(x):
        return "(((%s) - %s) >> %s)" % (x, DIG(x), k)
    fo = lambda x: "(__int128)out[G] == %s" % DIG(x)
    fc = lambda x: "(__int128)carry_out[G] == %s" % CAR(x)
    # invariants carry only the functional form (it determines the outputs); the property-statement posts of the
    # contract (equation, balancedness, carry bound) are derived from it at function exit, per concrete k
    loops = [
        {"id": 0, "assigns": A_oc, "decreases": dec, "invariants": inv("%s && %s" % (fo(x_cin), fc(x_cin)), keep_cin)},
        {"id": 1, "assigns": A_o, "decreases": dec, "invariants": inv(fo(x_cin), keep_cin)},
        {"id": 2, "assigns": A_oc, "decreases": dec, "invariants": inv("%s && %s" % (fo(x_nocin), fc(x_nocin)), keep_in)},
        {"id": 3, "assigns": A_o, "decreases": dec, "invariants": inv(fo(x_nocin), keep_in)},
        {"id": 4, "assigns": A_c, "decreases": dec, "invariants": inv(fc(x_cin), keep_cin)},
        {"id": 5, "assigns": A_c, "decreases": dec, "invariants": inv(fc(x_nocin), keep_in)},
    ]
    shapes = [("o1c1i1", 1, 1, 1), ("o1c0i1", 1, 0, 1), ("o1c1i0", 1, 1, 0), ("o1c0i0", 1, 0, 0),
              ("o0c1i1", 0, 1, 1), ("o0c1i0", 0, 1, 0)]
    J = []
    for (nm, o, c, ci) in shapes:
        for kk in range(1, 63):
            wide = kk in (1, 2, 32, 62)
            J.append(Job(name="coeffs.znx_normalize.%s.k%02d" % (nm, kk),
                         props=["C05", "C13", "C11", "C18", "C15"] if wide else ["C05"], shape="S1",
                         sources=SRC, harness=H, entry="h_znx_normalize",
                         enforce=[("znx_normalize", "znx_normalize__c")],
                         loops={"znx_normalize": {"count": 6, "loops": loops}},
                         defines={"NRM_OUT": o, "NRM_COUT": c, "NRM_CIN": ci, "NRM_K": kk},
                         cbmc_flags=NOOVF + NOSHIFT,
                         functions=["znx_normalize", "get_base_k_digit", "get_base_k_carry"], timeout=300,
                         bound_note="one run per NULL-pattern (6, covering the precondition) and per k in 1..62 (all of k's domain)",
                         replay={"driver": "znx_normalize"}))
    return J


def lemma_jobs():
    J = []
    for as_ in (1, 2, 3, 4):
        for kk in range(1, 63):
            J.append(Job(name="lemma.norm_closed_form.as%d.k%02d" % (as_, kk), props=["C05"], shape="S6",
                         sources=[], harness="lemmas_norm.c", entry="lemma_norm", no_dfcc=True,
                         defines={"AS": as_, "NRM_K": kk}, cbmc_flags=["--unwind", "6", "--unwinding-assertions",
                                                                        "--no-signed-overflow-check", "--no-undefined-shift-check"],
                         functions=[], timeout=600, solver="race", tier="quick" if as_ <= 3 else "thorough",
                         bound_note="limb count %d, k=%d (all k and AS<=4 enumerated), all data" % (as_, kk)))
    return J


def avx_elem_jobs():
    J = []
    ops = [("add", 0, "znx_add_i64_avx"), ("sub", 1, "znx_sub_i64_avx"), ("negate", 2, "znx_negate_i64_avx")]
    for nm, op, fn in ops:
        for nn, tier in ((1, "quick"), (2, "quick"), (4, "quick"), (8, "quick"), (16, "quick"), (32, "quick"),
                         (64, "thorough"), (256, "thorough"), (1024, "thorough")):
            for alias in ((0, 1, 2, 3) if op < 2 else (0, 1)):
                for ro in ((0, 1, 2, 3) if nn <= 64 else (1,)):
                    J.append(Job(name="avx.znx_%s_i64_avx.nn%d.al%d.ro%d" % (nm, nn, alias, ro),
                                 props=["C07", "C08", "C13", "C11", "C18"], shape="S4",
                                 sources=["coeffs/coeffs_arithmetic_avx.c"], harness="avx_elem.c", entry="h_avx_elem",
                                 no_dfcc=True, defines={"NN": nn, "ALIAS": alias, "OP": op, "RO": ro},
                                 cbmc_flags=NOOVF + ["--unwind", str(nn + 2), "--unwinding-assertions"],
                                 functions=[fn], timeout=900, tier=tier,
                                 bound_note="length nn=%d (unwound), alias %d, misalignment %d*8 bytes; every lane value symbolic" % (nn, alias, ro),
                                 replay={"driver": "znx_elem", "fn": fn, "op": {"add": "add", "sub": "sub", "negate": "neg"}[nm]}))
    return J
