# C10 / C04: q120 arithmetic
from .core import Job

SIMPLE = ["q120/q120_arithmetic_simple.c"]
LE = "__CPROVER_loop_entry"


def step_loop(res_elems, step, post, extra_vars=""):
    """for (i = 0 [, j = 0]; i < step*nn; i += step [, ...]) : ghost element G is done once step*G < i"""
    return post


def jobs(seed=0):
    J = []
    QK = "(GK == 0 ? 1073479681ul : GK == 1 ? 1071513601ul : GK == 2 ? 1070727169ul : 1068236801ul)"

    def simple(name, entry, fn, contract, loopspec, timeout=600, solver="race", flags=None):
        J.append(Job(name="q120." + name, props=["C10", "C11", "C18", "C15"] + (["C04"] if name == "add_bbb" else []), shape="S1", sources=SIMPLE, harness="q120_simple.c",
                     entry=entry, enforce=[(fn, contract)], loops={fn: {"count": 1, "loops": [dict(loopspec, id=0)]}},
                     cbmc_flags=["--no-signed-overflow-check"] + (flags or []), functions=[fn], timeout=timeout, solver=solver,
                     replay={"driver": "q120_simple", "fn": fn}))
    u64 = lambda p, i: "((const unsigned long*)%s)[%s]" % (p, i)
    u32 = lambda p, i: "((const unsigned int*)%s)[%s]" % (p, i)
    # add_bbb: i steps by 4 up to 4*nn
    simple("add_bbb", "h_add_bbb", "q120_add_bbb_simple", "add_bbb__c",
           {"assigns": "i, __CPROVER_object_upto(res, nn * 32)", "decreases": "4 * nn - i",
            "invariants": "i %% 4 == 0 && i <= 4 * nn && (4 * G < i ==> (unsigned __int128)%s == (unsigned __int128)(%s %% (%s << 33)) + (unsigned __int128)(%s %% (%s << 33)))"
                          % (u64("res", "4 * G + GK"), u64("x", "4 * G + GK"), QK, u64("y", "4 * G + GK"), QK)})
    simple("add_ccc", "h_add_ccc", "q120_add_ccc_simple", "add_ccc__c",
           {"assigns": "i, __CPROVER_object_upto(res, nn * 32)", "decreases": "8 * nn - i",
            "invariants": "i %% 8 == 0 && i <= 8 * nn && (8 * G < i ==> (%s == ((unsigned long)%s + (unsigned long)%s) %% %s && %s == ((unsigned long)%s + (unsigned long)%s) %% %s))"
                          % (u32("res", "8 * G + 2 * GK"), u32("x", "8 * G + 2 * GK"), u32("y", "8 * G + 2 * GK"), QK,
                             u32("res", "8 * G + 2 * GK + 1"), u32("x", "8 * G + 2 * GK + 1"), u32("y", "8 * G + 2 * GK + 1"), QK)})
    # %-based conversions and functions with local statics: frame/memory S1 for every nn, functional S4 (see q120_simple_s4.c)
    for nm, fn, contract, assigns, inv, dec in (
            ("c_from_b", "q120_c_from_b_simple", "c_from_b_frame__c", "i, j, __CPROVER_object_upto(res, nn * 32)", "i % 4 == 0 && i <= 4 * nn && j == 2 * i", "4 * nn - i"),
            ("b_from_znx64", "q120_b_from_znx64_simple", "b_from_znx64_frame__c", "i, j, __CPROVER_object_upto(res, nn * 32)", "j <= nn && i == 4 * j", "nn - j"),
            ("c_from_znx64", "q120_c_from_znx64_simple", "c_from_znx64_frame__c", "i, j, __CPROVER_object_upto(res, nn * 32)", "j <= nn && i == 8 * j", "nn - j"),
            ("b_to_znx128", "q120_b_to_znx128_simple", "b_to_znx128_frame__c", "i, j, __CPROVER_object_upto(res, nn * 16)", "j <= nn && i == 4 * j", "nn - j")):
        J.append(Job(name="q120.%s.frame" % nm, props=["C11", "C18", "C10"], shape="S1", sources=SIMPLE, harness="q120_simple.c",
                     entry="h_frame_" + nm, enforce=[(fn, contract)], loops={fn: {"count": 1, "loops": [{"id": 0, "assigns": assigns, "invariants": inv, "decreases": dec}]}},
                     # dfcc havocs the function-local statics (Q, Qm*): the modulus of `tmp %= Q` is then arbitrary, so the
                     # division-by-zero check is meaningful only in the S4 run, where the statics are initialised
                     cbmc_flags=["--no-signed-overflow-check"] + (["--no-div-by-zero-check"] if nm == "b_to_znx128" else []),
                     functions=[fn], timeout=600))
        for nn in (1, 2):
            if nm in ("c_from_b", "c_from_znx64"):
                continue   # functional post undecided: equivalence of 64-bit divider circuits times out on both back ends (DESIGN 5/C10)
            J.append(Job(name="q120.%s.s4.nn%d" % (nm, nn), props=["C10", "C15"] + (["C04"] if nm == "b_from_znx64" else []), shape="S4", sources=SIMPLE, harness="q120_simple_s4.c",
                         entry="h_s4_" + nm, no_dfcc=True, defines={"NN": nn},
                         cbmc_flags=["--no-signed-overflow-check", "--unwind", str(8 * nn + 2), "--unwinding-assertions"],
                         functions=[fn], timeout=1500, solver="race", tier="quick" if nn == 1 else "thorough",
                         bound_note="nn=%d elements unwound, every lane value" % nn))
    J.append(Job(name="q120.b_to_znx128.boundary", props=["C10"], shape="S5", sources=SIMPLE, harness="q120_simple_s4.c",
                 entry="h_s5_b_to_znx128_boundary", no_dfcc=True, defines={"NN": 1},
                 cbmc_flags=["--no-signed-overflow-check", "--unwind", "14", "--unwinding-assertions"], functions=["q120_b_to_znx128_simple"],
                 timeout=600, bound_note="concrete boundary vectors (closed-term evaluation, not a proof)"))
    for entry, nm in (("h_s4_q120x2_blocks", "q120x2_extract_save"), ("h_s4_q120x2_contiguous", "q120x2_extract_contiguous")):
        for xn in (2, 8):
            J.append(Job(name="q120.%s.n%d" % (nm, xn), props=["C10", "C11", "C18"], shape="S4", sources=["q120/q120_arithmetic_ref.c"], harness="q120_simple_s4.c",
                         entry=entry, no_dfcc=True, defines={"NN": 1, "XN": xn}, cbmc_flags=["--unwind", str(12 * xn + 3), "--unwinding-assertions", "--no-signed-overflow-check"],
                         functions=["q120x2_extract_1blk_from_q120b_ref", "q120x2b_save_1blk_to_q120b_ref", "q120x2_extract_1blk_from_contiguous_q120b_ref"], timeout=600,
                         bound_note="dimension nn=%d, every block index, all data (copies of 8 words)" % xn))
    J.append(Job(name="lemma.q120_integer_lemmas", props=["C10", "C04"], shape="S6", sources=[], harness="", entry="", kind="native",
                 native_cmd=["python3", "lemmas/q120_lemmas.py"], functions=[], timeout=900,
                 bound_note="z3 (z3-new 5.1 if present), linear integer arithmetic, constants read from the real q120_common.h"))
    J += bbc_jobs()
    J += ntt_jobs(seed)
    J.append(Job(name="q120.bbc.table_wf", props=["C10", "C04"], shape="S5", sources=[], harness="", entry="", kind="native",
                 native_cmd=["tools/bbc_table_check.sh"], functions=["vec_mat1col_product_bbc_precomp"], timeout=300,
                 bound_note="closed-term evaluation of the real constructor on this machine (not a proof)"))
    J.append(Job(name="ntt.tables_wf", props=["C04"], shape="S5", sources=[], harness="", entry="", kind="native",
                 native_cmd=["tools/ntt_tables_check.sh"], functions=["q120_new_ntt_bb_precomp", "q120_new_intt_bb_precomp"], timeout=600,
                 bound_note="closed-term evaluation of the real constructors on this machine for every n = 2..65536 (not a proof)"))
    return J


_tab = None


def native_tables():
    """S5: run the real q120 table constructors natively (gcc, this machine's libm) and read h and the reduced powers"""
    global _tab
    if _tab is None:
        import subprocess, tempfile, os
        from . import core
        d = tempfile.mkdtemp()
        exe = os.path.join(d, "qh")
        try:
            subprocess.check_call(["gcc", "-O1", "-DNDEBUG", "-I" + core.SRC, os.path.join(core.VERIF, "lemmas", "q120_h.c"),
                                   os.path.join(core.SRC, "q120", "q120_arithmetic_ref.c"), "-lm", "-o", exe], stderr=subprocess.DEVNULL)
            out = subprocess.check_output([exe], text=True)
            _tab = {l.split()[0]: int(l.split()[1]) for l in out.splitlines() if l.startswith(("BBC_H", "BAA_H", "BBB_H"))}
        except Exception:
            _tab = {}
    return _tab


def bbc_jobs():
    J = []
    t = native_tables()
    if "BBC_H" not in t:
        return J
    h = t["BBC_H"]
    REF = ["q120/q120_arithmetic_ref.c"]
    d = {"BBC_H": h}
    for entry, fn in (("h_accum_mul", "accum_mul_q120_bc"), ("h_accum_to", "accum_to_q120b")):
      for lane in range(4):
        J.append(Job(name="q120.bbc.%s.lane%d" % (fn, lane), props=["C10", "C04"], shape="S2", sources=REF, harness="q120_bbc.c", entry=entry, no_dfcc=True,
                     export_static=True, defines=dict(d, LANE=lane), cbmc_flags=["--unwind", "10", "--unwinding-assertions", "--no-signed-overflow-check"],
                     functions=[fn], timeout=1200, solver="race",
                     bound_note="loop-free (4 lanes unwound), every operand value; table h=%d read from the real constructor (S5)" % h))
    word = lambda j: "s[%d] <= i * 8589934590ul" % j
    vk = lambda k: "((unsigned __int128)s[%d] + (((unsigned __int128)s[%d]) << 32)) == ACC[%d]" % (2 * k, 2 * k + 1, k)
    inv = "i <= ell && " + " && ".join(word(j) for j in range(8)) + " && " + " && ".join(vk(k) for k in range(4))
    # outer loop proof (every ell <= 10000): ghost accumulators ACC, invariant V_k(s) == ACC[k] && s[j] <= i*(2^33-2); the step is
    # replaced by its contract in LEAN form (value relation through the ghost term GTERM, no 128-bit multiplier in this formula)
    for lane in range(4):
      J.append(Job(name="q120.bbc.q120_vec_mat1col_product_bbc_ref.lane%d" % lane, props=["C10", "C04", "C11", "C18"], shape="S1", sources=REF, harness="q120_bbc.c",
                 entry="h_bbc_ref", export_static=True, defines=dict(d, LANE=lane, LEAN_STEP=1),
                 enforce=[("q120_vec_mat1col_product_bbc_ref", "bbc_ref__c")],
                 replace=[("__CPROVER_file_local_q120_arithmetic_ref_c_accum_mul_q120_bc", "accum_mul__c"),
                          ("__CPROVER_file_local_q120_arithmetic_ref_c_accum_to_q120b", "accum_to_q120b__c")],
                 loops={"q120_vec_mat1col_product_bbc_ref": {"count": 1, "loops": [
                     {"id": 0, "assigns": "i, __CPROVER_object_whole(s), __CPROVER_object_whole(ACC), __CPROVER_object_whole(GTERM)", "invariants": inv, "decreases": "ell - i"}]}},
                 cbmc_flags=["--no-signed-overflow-check"], functions=["q120_vec_mat1col_product_bbc_ref"], timeout=1800, solver="kissat",
                 tier="quick" if lane == 0 else "thorough",
                 bound_note="every ell <= 10000 (loop contract), ghost accumulators; step and final functions replaced by their contracts"))
    # a*a range proof (every ell <= 10000): the 4-lane inner loops are unwound before instrumentation (dfcc rejects a contract
    # on a loop nested in a contract loop), the outer loop carries the accumulator bounds, CBMC's unsigned-overflow checks
    # on every + and * of the function are the "never wraps" obligations.
    if "BAA_H" in t:
        hb = t["BAA_H"]
        lo, hi = (1 << hb) - 1, (1 << (64 - hb)) - 1
        inv = "i % 4 == 0 && i <= 4 * ell && " + " && ".join("acc1[%d] <= (i / 4) * %dul && acc2[%d] <= (i / 4) * %dul" % (j, lo, j, hi) for j in range(4))
        fn = "q120_vec_mat1col_product_baa_ref"
        J.append(Job(name="q120.baa." + fn, props=["C04", "C11", "C18"], shape="S1", sources=REF, harness="q120_bbc.c", entry="h_baa_ref",
                     defines=dict(d, BAA_H=hb), enforce=[(fn, "baa_ref__c")], pre_unwindset=[fn + ".0:5", fn + ".2:5"], replay={"driver": "q120_prod", "fn": "baa"},
                     loops={fn: {"count": 1, "loops": [
                         {"id": 0, "assigns": "i, __CPROVER_object_whole(acc1), __CPROVER_object_whole(acc2)", "invariants": inv, "decreases": "4 * ell - i"}]}},
                     cbmc_flags=["--no-signed-overflow-check", "--unsigned-overflow-check"], functions=[fn], timeout=1200,
                     # x*y itself is exact iff both lanes are below 2^32, which is layout a's domain: a universally quantified
                     # precondition that has no ghost-index form; the accumulator bounds hold for ANY t, so this one check is waived
                     waive=[r"arithmetic overflow on unsigned \* in x_ptr\["],
                     solver="race", bound_note="every ell <= 10000: accumulators stay below ell*2^h / ell*2^(64-h), no unsigned operation of the function wraps; h=%d from the real constructor" % hb))
    if "BBB_H" in t:
        hb = t["BBB_H"]
        m32 = (1 << 32) - 1
        inv = "i % 4 == 0 && i <= 4 * ell && " + " && ".join("s1[%d] <= (i / 4) * %dul && s2[%d] <= (i / 4) * %dul && s3[%d] <= (i / 4) * %dul && s4[%d] <= (i / 4) * %dul"
                                                              % (j, m32, j, 3 * m32, j, 3 * m32, j, m32) for j in range(4))
        fn = "q120_vec_mat1col_product_bbb_ref"
        J.append(Job(name="q120.bbb." + fn, props=["C04", "C11", "C18"], shape="S1", sources=REF, harness="q120_bbc.c", entry="h_bbb_ref",
                     defines=dict(d, BBB_H=hb), enforce=[(fn, "bbb_ref__c")], pre_unwindset=[fn + ".0:5", fn + ".2:5"], replay={"driver": "q120_prod", "fn": "bbb"},
                     loops={fn: {"count": 1, "loops": [
                         {"id": 0, "assigns": "i, __CPROVER_object_whole(s1), __CPROVER_object_whole(s2), __CPROVER_object_whole(s3), __CPROVER_object_whole(s4)",
                          "invariants": inv, "decreases": "4 * ell - i"}]}},
                     cbmc_flags=["--no-signed-overflow-check", "--unsigned-overflow-check"], functions=[fn], timeout=1200,
                     tier="thorough", solver="race", bound_note="every ell <= 10000, ANY 64-bit operands: the four partial sums stay below 3*ell*2^32, no unsigned operation of the function wraps; h=%d from the real constructor" % hb))
    return J


_ntt = None


def ntt_tuples():
    """S5: distinct level tuples of the real NTT/iNTT tables for n = 2^1..2^16 (native run of the constructors)"""
    global _ntt
    if _ntt is not None:
        return _ntt
    import subprocess, tempfile, os, re
    from . import core
    d = tempfile.mkdtemp()
    exe = os.path.join(d, "qm")
    _ntt = []
    try:
        subprocess.check_call(["gcc", "-O1", "-DNDEBUG", "-I" + core.SRC, os.path.join(core.VERIF, "lemmas", "q120_ntt_meta.c"),
                               os.path.join(core.SRC, "q120", "q120_ntt.c"), os.path.join(core.SRC, "commons.c"),
                               os.path.join(core.SRC, "commons_private.c"), "-lm", "-o", exe], stderr=subprocess.DEVNULL)
        out = subprocess.check_output([exe], text=True)
    except Exception:
        return _ntt
    levels = {}
    red = {}
    for l in out.splitlines():
        m = re.match(r"LEVEL (\d+) (\d) (\d+) reduce=(\d) bs=(\d+) half_bs=(\d+) mask=(\d+) q2sh=(-?\d+)", l)
        if m:
            lg, inv, lv, rd, bs, hb, mask, q2 = map(int, m.groups())
            levels.setdefault((lg, inv), []).append((lv, rd, bs, hb, q2))
        m = re.match(r"RED (\d+) (\d) (\d+) (\d+)", l)
        if m:
            red[(int(m.group(1)), int(m.group(2)))] = int(m.group(3))
    tuples = set()
    for (lg, inv), lv in levels.items():
        lv.sort()
        rh = red[(lg, inv)]
        # budget after a reduction: a forward reduce level (or the inverse level 0) has q2sh == bred - 30
        bred = None
        for (_, rd, bs, hb, q2) in lv:
            if rd and ((not inv) or _ == 0):
                bred = q2 + 30
        if bred is None:
            for key, l2 in levels.items():
                for (i2, rd, bs, hb, q2) in l2:
                    if rd and (key[1] == 0 or i2 == 0):
                        bred = q2 + 30
        prev = 64
        nl = len(lv)
        for (i, rd, bs, hb, q2) in lv:
            if not inv:
                kind, nnb = (0, 1) if i == 0 else (1, 2 if i == nl - 1 else 4)
            else:
                kind, nnb = (0, 1) if i == nl - 1 else (2, 2 if i == 0 else 4)
            tuples.add((kind, nnb, rd, prev, bred or 48, hb, q2, bs, rh))
            prev = bs
    _ntt = sorted(tuples)
    return _ntt


def ntt_jobs(seed=0):
    J = []
    for (kind, nnb, rd, bin_, bred, hb, q2, bs, rh) in ntt_tuples():
        for lane in range(4):
            nm = "ntt.lane.k%d.nn%d.red%d.in%d.h%d.q%d.bs%d.lane%d" % (kind, nnb, rd, bin_, hb, q2 if q2 >= 0 else 99, bs, lane)
            J.append(Job(name=nm, props=["C04", "C10"], shape="S4", sources=["q120/q120_ntt_avx2.c"], harness="ntt_lanes.c", entry="h_ntt_level",
                         no_dfcc=True, avx=True,
                         defines={"KIND": kind, "NNB": nnb, "RED": rd, "BIN": bin_, "BRED": bred, "HB": hb, "Q2SH": q2, "BS": bs, "RH": rh, "LANE": lane},
                         cbmc_flags=["--unwind", "6", "--unwinding-assertions", "--no-signed-overflow-check", "--no-undefined-shift-check", "--object-bits", "10"],
                         functions=["split_precompmul_si256", "modq_red", "ntt_iter", "ntt_iter_red", "intt_iter", "intt_iter_red", "ntt_iter_first", "ntt_iter_first_red"],
                         timeout=1500, solver="kissat", tier="quick" if lane == seed % 4 else "thorough",
                         bound_note="block of %d vectors (smallest the kernel accepts), lane %d, level tuple from the real tables: kind=%d reduce=%d in-budget=%d half_bs=%d q2bs=q<<%d bs=%d" % (nnb, lane, kind, rd, bin_, hb, q2, bs)))
    return J
