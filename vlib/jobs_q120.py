# C10 / C04: q120 arithmetic
from .core import Job
import re

SIMPLE = ["q120/q120_arithmetic_simple.c"]
BBB_REF_SUM_TIER = "manual"   # set to "thorough" once q120.bbb.*.lane* (exact ghost sum) is measured to finish
LE = "__CPROVER_loop_entry"


def step_loop(res_elems, step, post, extra_vars=""):
    """for (i = 0 [, j = 0]; i < step*nn; i += step [, ...]) : ghost element G is done once step*G < i"""
    return post


def jobs(seed=0):
    J = []
    QK = "(GK == 0 ? 1073479681ul : GK == 1 ? 1071513601ul : GK == 2 ? 1070727169ul : 1068236801ul)"

    def simple(name, entry, fn, contract, loopspec, timeout=600, solver="race", flags=None):
        J.append(Job(name="q120." + name, props=["C10", "C11", "C18", "C15"] + (["C04"] if name == "add_bbb" else []), shape="S1", sources=SIMPLE, harness="q120_simple.c",
                     entry=entry, enforce=[(fn, contract)], loops={fn: {"count": 1, "loops": [dict(loopspec, id=0)]}},
                     cbmc_flags=["--no-signed-overflow-check"] + (flags or []), functions=[fn], timeout=timeout, solver=solver,
                     replay={"driver": "q120_simple", "fn": fn}))
    u64 = lambda p, i: "((const unsigned long*)%s)[%s]" % (p, i)
    u32 = lambda p, i: "((const unsigned int*)%s)[%s]" % (p, i)
    # add_bbb: i steps by 4 up to 4*nn
    simple("add_bbb", "h_add_bbb", "q120_add_bbb_simple", "add_bbb__c",
           {"assigns": "i, __CPROVER_object_upto(res, nn * 32)", "decreases": "4 * nn - i",
            "invariants": "i %% 4 == 0 && i <= 4 * nn && (4 * G < i ==> (unsigned __int128)%s == (unsigned __int128)(%s %% (%s << 33)) + (unsigned __int128)(%s %% (%s << 33)))"
                          % (u64("res", "4 * G + GK"), u64("x", "4 * G + GK"), QK, u64("y", "4 * G + GK"), QK)})
    simple("add_ccc", "h_add_ccc", "q120_add_ccc_simple", "add_ccc__c",
           {"assigns": "i, __CPROVER_object_upto(res, nn * 32)", "decreases": "8 * nn - i",
            "invariants": "i %% 8 == 0 && i <= 8 * nn && (8 * G < i ==> (%s == ((unsigned long)%s + (unsigned long)%s) %% %s && %s == ((unsigned long)%s + (unsigned long)%s) %% %s))"
                          % (u32("res", "8 * G + 2 * GK"), u32("x", "8 * G + 2 * GK"), u32("y", "8 * G + 2 * GK"), QK,
                             u32("res", "8 * G + 2 * GK + 1"), u32("x", "8 * G + 2 * GK + 1"), u32("y", "8 * G + 2 * GK + 1"), QK)})
    # %-based conversions and functions with local statics: frame/memory S1 for every nn, functional S4 (see q120_simple_s4.c)
    for nm, fn, contract, assigns, inv, dec in (
            ("c_from_b", "q120_c_from_b_simple", "c_from_b_frame__c", "i, j, __CPROVER_object_upto(res, nn * 32)", "i % 4 == 0 && i <= 4 * nn && j == 2 * i", "4 * nn - i"),
            ("b_from_znx64", "q120_b_from_znx64_simple", "b_from_znx64_frame__c", "i, j, __CPROVER_object_upto(res, nn * 32)", "j <= nn && i == 4 * j", "nn - j"),
            ("c_from_znx64", "q120_c_from_znx64_simple", "c_from_znx64_frame__c", "i, j, __CPROVER_object_upto(res, nn * 32)", "j <= nn && i == 8 * j", "nn - j"),
            ("b_to_znx128", "q120_b_to_znx128_simple", "b_to_znx128_frame__c", "i, j, __CPROVER_object_upto(res, nn * 16)", "j <= nn && i == 4 * j", "nn - j")):
        J.append(Job(name="q120.%s.frame" % nm, props=["C11", "C18", "C10"], shape="S1", sources=SIMPLE, harness="q120_simple.c",
                     entry="h_frame_" + nm, enforce=[(fn, contract)], loops={fn: {"count": 1, "loops": [{"id": 0, "assigns": assigns, "invariants": inv, "decreases": dec}]}},
                     # dfcc havocs the function-local statics (Q, Qm*): the modulus of `tmp %= Q` is then arbitrary, so the
                     # division-by-zero check is meaningful only in the S4 run, where the statics are initialised
                     cbmc_flags=["--no-signed-overflow-check"] + (["--no-div-by-zero-check"] if nm == "b_to_znx128" else []),
                     functions=[fn], timeout=600))
        for nn in (1, 2):
            if nm in ("c_from_b", "c_from_znx64"):
                continue   # functional post undecided: equivalence of 64-bit divider circuits times out on both back ends (DESIGN 5/C10)
            J.append(Job(name="q120.%s.s4.nn%d" % (nm, nn), props=["C10", "C15"] + (["C04"] if nm == "b_from_znx64" else []), shape="S4", sources=SIMPLE, harness="q120_simple_s4.c",
                         entry="h_s4_" + nm, no_dfcc=True, defines={"NN": nn},
                         cbmc_flags=["--no-signed-overflow-check", "--unwind", str(8 * nn + 2), "--unwinding-assertions"],
                         functions=[fn], timeout=1500, solver="race", tier="quick" if nn == 1 else "thorough",
                         bound_note="nn=%d elements unwound, every lane value" % nn))
    J.append(Job(name="q120.b_to_znx128.boundary", props=["C10"], shape="S5", sources=SIMPLE, harness="q120_simple_s4.c",
                 entry="h_s5_b_to_znx128_boundary", no_dfcc=True, defines={"NN": 1},
                 cbmc_flags=["--no-signed-overflow-check", "--unwind", "14", "--unwinding-assertions"], functions=["q120_b_to_znx128_simple"],
                 timeout=600, bound_note="concrete boundary vectors (closed-term evaluation, not a proof)"))
    for entry, nm in (("h_s4_q120x2_blocks", "q120x2_extract_save"), ("h_s4_q120x2_contiguous", "q120x2_extract_contiguous")):
        for xn in (2, 8):
            J.append(Job(name="q120.%s.n%d" % (nm, xn), props=["C10", "C11", "C18"], shape="S4", sources=["q120/q120_arithmetic_ref.c"], harness="q120_simple_s4.c",
                         entry=entry, no_dfcc=True, defines={"NN": 1, "XN": xn}, cbmc_flags=["--unwind", str(12 * xn + 3), "--unwinding-assertions", "--no-signed-overflow-check"],
                         functions=["q120x2_extract_1blk_from_q120b_ref", "q120x2b_save_1blk_to_q120b_ref", "q120x2_extract_1blk_from_contiguous_q120b_ref"], timeout=600,
                         bound_note="dimension nn=%d, every block index, all data (copies of 8 words)" % xn))
    J.append(Job(name="lemma.q120_integer_lemmas", props=["C10", "C04"], shape="S6", sources=[], harness="", entry="", kind="native",
                 native_cmd=["python3", "lemmas/q120_lemmas.py"], functions=[], timeout=900,
                 bound_note="z3 (z3-new 5.1 if present), linear integer arithmetic, constants read from the real q120_common.h"))
    J += bbc_jobs()
    J += avx2_jobs(seed)
    J += ntt_jobs(seed)
    J.append(Job(name="q120.bbc.table_wf", props=["C10", "C04"], shape="S5", sources=[], harness="", entry="", kind="native",
                 native_cmd=["tools/bbc_table_check.sh"], functions=["vec_mat1col_product_bbc_precomp"], timeout=300,
                 bound_note="closed-term evaluation of the real constructor on this machine (not a proof)"))
    J.append(Job(name="ntt.tables_wf", props=["C04"], shape="S5", sources=[], harness="", entry="", kind="native",
                 native_cmd=["tools/ntt_tables_check.sh"], functions=["q120_new_ntt_bb_precomp", "q120_new_intt_bb_precomp"], timeout=600,
                 bound_note="closed-term evaluation of the real constructors on this machine for every n = 2..65536 (not a proof)"))
    return J


_tab = None


def native_tables():
    """S5: run the real q120 table constructors natively (gcc, this machine's libm) and read h and the reduced powers"""
    global _tab
    if _tab is None:
        import subprocess, tempfile, os
        from . import core
        d = tempfile.mkdtemp()
        exe = os.path.join(d, "qh")
        try:
            subprocess.check_call(["gcc", "-O1", "-DNDEBUG", "-I" + core.SRC, os.path.join(core.VERIF, "lemmas", "q120_h.c"),
                                   os.path.join(core.SRC, "q120", "q120_arithmetic_ref.c"), "-lm", "-o", exe], stderr=subprocess.DEVNULL)
            out = subprocess.check_output([exe], text=True)
            _tab = {l.split()[0]: int(l.split()[1]) for l in out.splitlines() if l.startswith(("BBC_H", "BAA_H", "BBB_H"))}
        except Exception:
            _tab = {}
    return _tab


def bbc_jobs():
    J = []
    t = native_tables()
    if "BBC_H" not in t:
        return J
    h = t["BBC_H"]
    REF = ["q120/q120_arithmetic_ref.c"]
    d = {"BBC_H": h}
    for entry, fn in (("h_accum_mul", "accum_mul_q120_bc"), ("h_accum_to", "accum_to_q120b")):
      for lane in range(4):
        J.append(Job(name="q120.bbc.%s.lane%d" % (fn, lane), props=["C10", "C04"], shape="S2", sources=REF, harness="q120_bbc.c", entry=entry, no_dfcc=True,
                     export_static=True, defines=dict(d, LANE=lane), cbmc_flags=["--unwind", "10", "--unwinding-assertions", "--no-signed-overflow-check"],
                     functions=[fn], timeout=1200, solver="race",
                     bound_note="loop-free (4 lanes unwound), every operand value; table h=%d read from the real constructor (S5)" % h))
    word = lambda j: "s[%d] <= i * 8589934590ul" % j
    vk = lambda k: "((unsigned __int128)s[%d] + (((unsigned __int128)s[%d]) << 32)) == ACC[%d]" % (2 * k, 2 * k + 1, k)
    inv = "i <= ell && " + " && ".join(word(j) for j in range(8)) + " && " + " && ".join(vk(k) for k in range(4))
    # outer loop proof (every ell <= 10000): ghost accumulators ACC, invariant V_k(s) == ACC[k] && s[j] <= i*(2^33-2); the step is
    # replaced by its contract in LEAN form (value relation through the ghost term GTERM, no 128-bit multiplier in this formula)
    for lane in range(4):
      J.append(Job(name="q120.bbc.q120_vec_mat1col_product_bbc_ref.lane%d" % lane, props=["C10", "C04", "C11", "C18"], shape="S1", sources=REF, harness="q120_bbc.c",
                 entry="h_bbc_ref", export_static=True, defines=dict(d, LANE=lane, LEAN_STEP=1),
                 enforce=[("q120_vec_mat1col_product_bbc_ref", "bbc_ref__c")],
                 replace=[("__CPROVER_file_local_q120_arithmetic_ref_c_accum_mul_q120_bc", "accum_mul__c"),
                          ("__CPROVER_file_local_q120_arithmetic_ref_c_accum_to_q120b", "accum_to_q120b__c")],
                 loops={"q120_vec_mat1col_product_bbc_ref": {"count": 1, "loops": [
                     {"id": 0, "assigns": "i, __CPROVER_object_whole(s), __CPROVER_object_whole(ACC), __CPROVER_object_whole(GTERM)", "invariants": inv, "decreases": "ell - i"}]}},
                 cbmc_flags=["--no-signed-overflow-check"], functions=["q120_vec_mat1col_product_bbc_ref"], timeout=1800, solver="kissat",
                 tier="quick" if lane == 0 else "thorough",
                 bound_note="every ell <= 10000 (loop contract), ghost accumulators; step and final functions replaced by their contracts"))
    # two-coefficient block forms (reference): same step / recombination contracts, NROWS calls per iteration; one run per
    # tracked row and lane; ghost call counter, operand tie for term GI
    for nrows, fn in ((1, "q120_vec_mat1col_product_bbc_ref"), (2, "q120x2_vec_mat1col_product_bbc_ref"), (4, "q120x2_vec_mat2cols_product_bbc_ref")):
        sw = (lambda r, j: "s[%d]" % j) if nrows == 1 else (lambda r, j: "s[%d][%d]" % (r, j))
        words = " && ".join("%s <= i * 8589934590ul" % sw(r, j) for r in range(nrows) for j in range(8))
        for row in range(nrows):
            for lane in range(4):
                inv = ("i <= ell && CALLI == i && CALLR == 0 && FINR == 0 && %s && ((unsigned __int128)%s + (((unsigned __int128)%s) << 32)) == ACC[%d]"
                       " && (GI < i ==> ((const char*)GX == (const char*)x + %d * GI + %d && (const char*)GY == (const char*)y + %d * GI + %d))"
                       % (words, sw(row, 2 * lane), sw(row, 2 * lane + 1), lane, 32 if nrows == 1 else 64, 32 * (row & 1), 32 * nrows, 32 * row))
                J.append(Job(name="q120.bbc.%s.%srow%d.lane%d" % (fn, "tie." if nrows == 1 else "", row, lane), props=["C10", "C04", "C11", "C18"], shape="S1", sources=REF, harness="q120_bbc.c",
                             entry="h_bbc_x2_ref", export_static=True, defines=dict(d, LANE=lane, LEAN_STEP=1, NROWS=nrows, GROW=row),
                             enforce=[(fn, "bbc_x2_ref__c")],
                             replace=[("__CPROVER_file_local_q120_arithmetic_ref_c_accum_mul_q120_bc", "accum_mul_x2__c"),
                                      ("__CPROVER_file_local_q120_arithmetic_ref_c_accum_to_q120b", "accum_to_q120b_x2__c")],
                             loops={fn: {"count": 1, "loops": [
                                 {"id": 0, "assigns": "i, __CPROVER_object_whole(s), __CPROVER_object_whole(ACC), __CPROVER_object_whole(GTERM), CALLI, CALLR, GX, GY", "invariants": inv, "decreases": "ell - i"}]}},
                             cbmc_flags=["--no-signed-overflow-check", "--object-bits", "10"], functions=[fn], timeout=3000, solver="race",
                             tier="quick" if (nrows == 2 and row == 1 and lane == 1) else ("manual" if ((nrows == 4 and lane != row) or (nrows == 1 and lane != 2)) else "thorough"),
                             bound_note="every ell <= 10000 (loop contract), tracked row %d lane %d; step and recombination replaced by their contracts" % (row, lane)))
    # a*a range proof (every ell <= 10000): the 4-lane inner loops are unwound before instrumentation (dfcc rejects a contract
    # on a loop nested in a contract loop), the outer loop carries the accumulator bounds, CBMC's unsigned-overflow checks
    # on every + and * of the function are the "never wraps" obligations.
    if "BAA_H" in t:
        hb = t["BAA_H"]
        lo, hi = (1 << hb) - 1, (1 << (64 - hb)) - 1
        GH = ", ACCW, GXV, GYV"
        fn = "q120_vec_mat1col_product_baa_ref"
        for lane in range(4):
          inv = ("i % 4 == 0 && i <= 4 * ell && " + " && ".join("acc1[%d] <= (i / 4) * %dul && acc2[%d] <= (i / 4) * %dul" % (j, lo, j, hi) for j in range(4))
                 + " && (unsigned __CPROVER_bitvector[192])acc1[%d] + (((unsigned __CPROVER_bitvector[192])acc2[%d]) << %d) == ACCW" % (lane, lane, hb)
                 + " && (4 * GTI < i ==> (GXV == x_ptr[4 * GTI + %d] && GYV == y_ptr[4 * GTI + %d]))" % (lane, lane))
          J.append(Job(name="q120.baa.%s.lane%d" % (fn, lane), props=["C04", "C10", "C11", "C18"], shape="S1", sources=REF, harness="q120_bbc.c", entry="h_baa_ref",
                     defines=dict(d, BAA_H=hb, LANE=lane, TERM_KIND=0), enforce=[(fn, "baa_ref__c")], pre_unwindset=[fn + ".0:5", fn + ".2:5"], replay={"driver": "q120_prod", "fn": "baa"},
                     tier="quick" if lane == 1 else "thorough",
                     loops={fn: {"count": 1, "loops": [
                         {"id": 0, "assigns": "i, __CPROVER_object_whole(acc1), __CPROVER_object_whole(acc2)" + GH, "invariants": inv, "decreases": "4 * ell - i"}]}},
                     cbmc_flags=["--no-signed-overflow-check", "--unsigned-overflow-check"], functions=[fn], timeout=3000,
                     # x*y itself is exact iff both lanes are below 2^32, which is layout a's domain: a universally quantified
                     # precondition that has no ghost-index form; the accumulator bounds hold for ANY t, so this one check is waived
                     waive=[r"arithmetic overflow on unsigned \* in x_ptr\[", r"arithmetic overflow on unsigned \* in x \* y"],
                     solver="race", bound_note="every ell <= 10000: accumulators stay below ell*2^h / ell*2^(64-h), no unsigned operation of the function wraps; h=%d from the real constructor" % hb))
    if "BBB_H" in t:
        hb = t["BBB_H"]
        m32 = (1 << 32) - 1
        fn = "q120_vec_mat1col_product_bbb_ref"
        W = "(unsigned __CPROVER_bitvector[192])"
        for lane in range(4):
          xv, yv = "x_ptr[4 * GTI + %d]" % lane, "y_ptr[4 * GTI + %d]" % lane
          inv = ("i % 4 == 0 && i <= 4 * ell && " + " && ".join("s1[%d] <= (i / 4) * %dul && s2[%d] <= (i / 4) * %dul && s3[%d] <= (i / 4) * %dul && s4[%d] <= (i / 4) * %dul"
                                                              % (j, m32, j, 3 * m32, j, 3 * m32, j, m32) for j in range(4))
                 + " && %ss1[%d] + (%ss2[%d] << 32) + (%ss3[%d] << 64) + (%ss4[%d] << 96) == ACCW" % (W, lane, W, lane, W, lane, W, lane)
                 + " && (4 * GTI < i ==> (GXV == %s && GYV == %s))" % (xv, yv))
          for variant in ("", ".range"):
            if variant:
                inv = inv[:inv.index(" && (unsigned __CPROVER_bitvector[192])s1[")]
            J.append(Job(name="q120.bbb.%s%s.lane%d" % (fn, variant, lane), props=["C04", "C10", "C11", "C18"], shape="S1", sources=REF, harness="q120_bbc.c", entry="h_bbb_ref",
                     defines=dict(d, BBB_H=hb, LANE=lane, TERM_KIND=1, **({"GHOST_SUM_OFF": 1} if variant else {})), enforce=[(fn, "bbb_ref__c")], pre_unwindset=[fn + ".0:5", fn + ".2:5"], replay={"driver": "q120_prod", "fn": "bbb"},
                     loops={fn: {"count": 1, "loops": [
                         {"id": 0, "assigns": "i, __CPROVER_object_whole(s1), __CPROVER_object_whole(s2), __CPROVER_object_whole(s3), __CPROVER_object_whole(s4), ACCW, GXV, GYV",
                          "invariants": inv, "decreases": "4 * ell - i"}]}},
                     cbmc_flags=["--no-signed-overflow-check", "--unsigned-overflow-check"], functions=[fn], timeout=3000,
                     # the run with the exact ghost sum (variant "") is kept by name only until it is known to finish (BBB_REF_SUM_TIER)
                     tier="thorough" if variant else BBB_REF_SUM_TIER, solver="race", bound_note="every ell <= 10000, ANY 64-bit operands: the four partial sums stay below 3*ell*2^32, no unsigned operation of the function wraps; h=%d from the real constructor" % hb))
    return J


def avx2_jobs(seed=0):
    """AVX2 products: range + functional for every ell (plain harness, non-dfcc loop contract, ghost state on the mul_epu32 model)"""
    J = []
    t = native_tables()
    if not all(k in t for k in ("BBC_H", "BAA_H", "BBB_H")):
        return J
    AVX = ["q120/q120_arithmetic_avx2.c"]
    m32, st = (1 << 32) - 1, (1 << 33) - 2
    W = "(unsigned __CPROVER_bitvector[WB])"
    ul = lambda v, j: "(unsigned long)%s[%d]" % (v, j)
    xa = lambda idx: "((const unsigned long*)P__x)[%s]" % idx
    ya = lambda idx: "((const unsigned long*)P__y)[%s]" % idx
    lo = lambda e: "(%s & 4294967295ul)" % e
    hi = lambda e: "(%s >> 32)" % e

    def spec(prod, lane, row):
        if prod == 0:
            h = t["BAA_H"]
            fn, per, xw, yw = "q120_vec_mat1col_product_baa_avx2", 1, 4, 4
            accs = {"acc1": (1 << h) - 1, "acc2": (1 << (64 - h)) - 1}
            assigns = "acc1, acc2"
            summ = "%s%s + (%s%s << %d) == SHIM_MUL_SUM" % (W, ul("acc1", lane), W, ul("acc2", lane), h)
            xv, yv = xa("4 * GI + %d" % lane), ya("4 * GI + %d" % lane)
            rec = "SHIM_MUL_REC_A[0] == %s && SHIM_MUL_REC_B[0] == %s" % (lo(xv), lo(yv))
        elif prod == 1:
            h = t["BBB_H"]
            fn, per, xw, yw = "q120_vec_mat1col_product_bbb_avx2", 4, 4, 4
            accs = {"s1": m32, "s2": 3 * m32, "s3": 3 * m32, "s4": m32}
            assigns = "s1, s2, s3, s4"
            summ = "%s%s + (%s%s << 32) + (%s%s << 64) + (%s%s << 96) == SHIM_MUL_SUM" % (W, ul("s1", lane), W, ul("s2", lane), W, ul("s3", lane), W, ul("s4", lane))
            xv, yv = xa("4 * GI + %d" % lane), ya("4 * GI + %d" % lane)
            rec = ("SHIM_MUL_REC_A[0] == %s && SHIM_MUL_REC_B[0] == %s && SHIM_MUL_REC_A[1] == %s && SHIM_MUL_REC_B[1] == %s && "
                   "SHIM_MUL_REC_A[2] == %s && SHIM_MUL_REC_B[2] == %s && SHIM_MUL_REC_A[3] == %s && SHIM_MUL_REC_B[3] == %s"
                   % (lo(xv), lo(yv), lo(xv), hi(yv), hi(xv), lo(yv), hi(xv), hi(yv)))
        else:
            h = t["BBC_H"]
            if prod == 2:
                fn, per, xw, yw = "q120_vec_mat1col_product_bbc_avx2", 2, 4, 4
                names, assigns = ["s1", "s2"], "s1, s2"
                a0, a1, j0, jh, xi, yi = "s1", "s2", 0, 1, 0, 0
            elif prod == 3:
                fn, per, xw, yw = "q120x2_vec_mat1col_product_bbc_avx2", 4, 8, 8
                names, assigns = ["s0", "s1", "s2", "s3"], "s0, s1, s2, s3, s8, s9, s10, s11, s12, s13, s14, s15"
                a0, a1, j0, xi, yi = "s%d" % (2 * row), "s%d" % (2 * row + 1), row, row, row
                jh = j0 + 2
            else:
                fn, per, xw, yw = "q120x2_vec_mat2cols_product_bbc_avx2", 8, 8, 16
                names, assigns = ["s%d" % k for k in range(8)], "s0, s1, s2, s3, s4, s5, s6, s7, s8, s9, s12, s13, s14, s15"
                a0, a1, j0, xi, yi = "s%d" % (2 * row), "s%d" % (2 * row + 1), (row & 1) * 4 + (row >> 1), row & 1, row
                jh = j0 + 2
            accs = {n: st for n in names}
            summ = "%s%s + (%s%s << 32) == SHIM_MUL_SUM" % (W, ul(a0, lane), W, ul(a1, lane))
            xv, yv = xa("%d * GI + %d" % (xw, 4 * xi + lane)), ya("%d * GI + %d" % (yw, 4 * yi + lane))
            rec = "SHIM_MUL_REC_A[%d] == %s && SHIM_MUL_REC_B[%d] == %s && SHIM_MUL_REC_A[%d] == %s && SHIM_MUL_REC_B[%d] == %s" % (j0, lo(xv), j0, lo(yv), jh, hi(xv), jh, hi(yv))
        # bounds for the job's lane only: the overflow obligations of the other three lanes are waived by name in this run and
        # are the obligations of the sibling runs (one run per lane)
        bounds = " && ".join("%s <= i * %dul" % (ul(n, lane), b) for n, b in accs.items())
        inv = ("i <= ell && (const char*)x_ptr == (const char*)P__x + %d * i && (const char*)y_ptr == (const char*)P__y + %d * i && SHIM_MUL_IT == i && SHIM_MUL_J == 0 && %s && %s && (GI < i ==> (%s))"
               % (8 * xw, 8 * yw, bounds, summ, rec)).replace("WB", "192" if prod == 1 else "128")
        asg = ("i, x_ptr, y_ptr, %s, SHIM_MUL_IT, SHIM_MUL_J, SHIM_MUL_SUM, __CPROVER_object_whole(SHIM_MUL_REC_A), __CPROVER_object_whole(SHIM_MUL_REC_B), "
               "__CPROVER_object_whole(SHIM_MUL_FIN_A), __CPROVER_object_whole(SHIM_MUL_FIN_B), __CPROVER_object_whole(SHIM_MUL_FIN_P)" % assigns)
        return fn, h, {"id": 0, "assigns": asg, "invariants": inv, "decreases": "ell - i"}

    names = {0: "baa", 1: "bbb", 2: "bbc", 3: "x2_1col", 4: "x2_2cols"}
    for prod in range(5):
        rows = {3: 2, 4: 4}.get(prod, 1)
        for row in range(rows):
            for lane in range(4):
                fn, h, loop = spec(prod, lane, row)
                # measured (DESIGN D11): a*a 54 s, b*c 112 s, block form one column 176 s, two columns 853 s per run; the b*b run with
                # its 192-bit ghost sum and seven recombination products does not finish in 40 min and is registered range-only
                quick = prod in (0, 2) and lane == (seed + prod) % 4
                if prod == 1:
                    loop = dict(loop, invariants=re.sub(r" && \(unsigned __CPROVER_bitvector\[192\]\).*$", "", loop["invariants"]))
                J.append(Job(name="q120.avx2.%s.row%d.lane%d" % (names[prod], row, lane), props=["C04", "C10", "C07", "C11", "C18"], shape="S1", sources=AVX, harness="q120_avx2.c",
                             entry="h_avx2_prod", no_dfcc=True, avx=True, strict_shim=2, defines=dict({"PROD": prod, "LANE": lane, "ROW": row, "HH": h, "SHIM_WIDE_BITS": 192 if prod == 1 else 128}, **({"RANGE_ONLY": 1} if prod == 1 else {})),
                             pre_unwindset=["__builtin_ia32_pmuludq256.0:5", "__builtin_ia32_psrlqi256.0:5", "__builtin_ia32_psllqi256.0:5", "table.0:5", "weights.0:9"],
                             replay=({"driver": "q120_prod", "fn": names[prod] + "_avx2"} if prod in (0, 1) else None),
                             loops={fn: {"count": 1, "loops": [loop]}},
                             cbmc_flags=["--no-signed-overflow-check", "--unsigned-overflow-check"], functions=[fn], timeout=3600, solver="minisat",   # minisat won every measured run; one process halves the memory (1.5-3 GB each)
                             waive=[r"arithmetic overflow on unsigned \+ in \{.*\}\[%dl\] \+ \{.*\}\[%dl\]$" % (o, o) for o in range(4) if o != lane],
                             # the two-column block form needs ~15 min per run: one lane per tracked row is registered, the other lanes
                             # (the same code, lane-symmetric) stay runnable by name
                             tier="quick" if quick else ("manual" if prod == 4 else "thorough"),   # two-column block form: see DESIGN D11 (memory under a loaded run)
                             bound_note="every ell <= 10000 (loop contract, non-dfcc route), any 64-bit lanes; h=%d from the real constructor (S5); ghost sums on the mul_epu32 model" % h))
    # bounded stand-in (S4): AVX2 == reference, bit for bit, for ell = 0..7 (every operand value); robust against a restructured
    # row loop (unrolling, tails), where the loop contract above stops with an extraction break
    for prod in range(5):
        rows = {3: 2, 4: 4}.get(prod, 1)
        h = t["BAA_H"] if prod == 0 else t["BBB_H"] if prod == 1 else t["BBC_H"]
        # registered lengths: those that decide well inside the time limit on a loaded machine (the obligation is a multiplier
        # equivalence per row; measured: a*a ell <= 4 7 min, b*c ell <= 3 12 min, b*b only the empty product, block forms ell <= 1)
        ok_ells = {0: [0, 1, 2, 3, 4], 1: [0], 2: [0, 1, 2, 3], 3: [0, 1], 4: [0, 1]}[prod]
        quick_ells = {0: [0, 3], 1: [0], 2: [0], 3: [0], 4: [0]}[prod]
        for ell in ok_ells:
            for row in range(rows):
                for lane in range(4):
                    quick = ell in quick_ells and lane == (seed + ell + row) % 4 and row == (seed + ell) % rows
                    J.append(Job(name="q120.avx2_eq_ref.%s.ell%d.row%d.lane%d" % (names[prod], ell, row, lane), props=["C07", "C10", "C04"], shape="S4",
                                 sources=AVX + ["q120/q120_arithmetic_ref.c"], harness="q120_avx2.c", entry="h_avx2_eq", no_dfcc=True, avx=True, guard=False,
                                 defines={"PROD": prod, "LANE": lane, "ROW": row, "HH": h, "ELL": ell}, replay=({"driver": "q120_prod", "fn": names[prod] + "_avx2"} if prod in (0, 1) else None),
                                 cbmc_flags=["--no-signed-overflow-check", "--unwind", str(max(10, 16 * ell + 2)), "--unwinding-assertions"], functions=[spec(prod, lane, row)[0]],
                                 timeout=3000, solver="race", tier="quick" if quick else ("thorough" if lane == (seed + ell + row) % 4 else "manual"),
                                 bound_note="ell = %d rows, every operand value; bit-identical to the reference product" % ell))
    return J


_ntt = None


def ntt_tuples():
    """S5: distinct level tuples of the real NTT/iNTT tables for n = 2^1..2^16 (native run of the constructors)"""
    global _ntt
    if _ntt is not None:
        return _ntt
    import subprocess, tempfile, os, re
    from . import core
    d = tempfile.mkdtemp()
    exe = os.path.join(d, "qm")
    _ntt = []
    try:
        subprocess.check_call(["gcc", "-O1", "-DNDEBUG", "-I" + core.SRC, os.path.join(core.VERIF, "lemmas", "q120_ntt_meta.c"),
                               os.path.join(core.SRC, "q120", "q120_ntt.c"), os.path.join(core.SRC, "commons.c"),
                               os.path.join(core.SRC, "commons_private.c"), "-lm", "-o", exe], stderr=subprocess.DEVNULL)
        out = subprocess.check_output([exe], text=True)
    except Exception:
        return _ntt
    levels = {}
    red = {}
    for l in out.splitlines():
        m = re.match(r"LEVEL (\d+) (\d) (\d+) reduce=(\d) bs=(\d+) half_bs=(\d+) mask=(\d+) q2sh=(-?\d+)", l)
        if m:
            lg, inv, lv, rd, bs, hb, mask, q2 = map(int, m.groups())
            levels.setdefault((lg, inv), []).append((lv, rd, bs, hb, q2))
        m = re.match(r"RED (\d+) (\d) (\d+) (\d+)", l)
        if m:
            red[(int(m.group(1)), int(m.group(2)))] = int(m.group(3))
    tuples = set()
    for (lg, inv), lv in levels.items():
        lv.sort()
        rh = red[(lg, inv)]
        # budget after a reduction: a forward reduce level (or the inverse level 0) has q2sh == bred - 30
        bred = None
        for (_, rd, bs, hb, q2) in lv:
            if rd and ((not inv) or _ == 0):
                bred = q2 + 30
        if bred is None:
            for key, l2 in levels.items():
                for (i2, rd, bs, hb, q2) in l2:
                    if rd and (key[1] == 0 or i2 == 0):
                        bred = q2 + 30
        prev = 64
        nl = len(lv)
        for (i, rd, bs, hb, q2) in lv:
            if not inv:
                kind, nnb = (0, 1) if i == 0 else (1, 2 if i == nl - 1 else 4)
            else:
                kind, nnb = (0, 1) if i == nl - 1 else (2, 2 if i == 0 else 4)
            tuples.add((kind, nnb, rd, prev, bred or 48, hb, q2, bs, rh))
            prev = bs
    _ntt = sorted(tuples)
    return _ntt


def ntt_jobs(seed=0):
    J = []
    for (kind, nnb, rd, bin_, bred, hb, q2, bs, rh) in ntt_tuples():
        for lane in range(4):
            nm = "ntt.lane.k%d.nn%d.red%d.in%d.h%d.q%d.bs%d.lane%d" % (kind, nnb, rd, bin_, hb, q2 if q2 >= 0 else 99, bs, lane)
            J.append(Job(name=nm, props=["C04", "C10"], shape="S4", sources=["q120/q120_ntt_avx2.c"], harness="ntt_lanes.c", entry="h_ntt_level",
                         no_dfcc=True, avx=True,
                         defines={"KIND": kind, "NNB": nnb, "RED": rd, "BIN": bin_, "BRED": bred, "HB": hb, "Q2SH": q2, "BS": bs, "RH": rh, "LANE": lane},
                         cbmc_flags=["--unwind", "6", "--unwinding-assertions", "--no-signed-overflow-check", "--no-undefined-shift-check", "--object-bits", "10"],
                         functions=["split_precompmul_si256", "modq_red", "ntt_iter", "ntt_iter_red", "intt_iter", "intt_iter_red", "ntt_iter_first", "ntt_iter_first_red"],
                         timeout=1500, solver="kissat", tier="quick" if lane == seed % 4 else "thorough",
                         bound_note="block of %d vectors (smallest the kernel accepts), lane %d, level tuple from the real tables: kind=%d reduce=%d in-budget=%d half_bs=%d q2bs=q<<%d bs=%d" % (nnb, lane, kind, rd, bin_, hb, q2, bs)))
    return J
