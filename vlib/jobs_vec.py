# S3 jobs: limb-vector wrappers of arithmetic/vec_znx.c and vec_znx_avx.c with element kernels replaced by contracts
import itertools
from .core import Job

H = "vec_znx.c"
STRIDES = [(1, 0), (1, 1), (2, 3)]          # sl = nn*M + A  : N, N+1, 2N+3

K_REF = {"add": ("znx_add_i64_ref", "znx_add__c"), "sub": ("znx_sub_i64_ref", "znx_sub__c"),
         "negate": ("znx_negate_i64_ref", "znx_negate__c"), "copy": ("znx_copy_i64_ref", "znx_copy__c"),
         "zero": ("znx_zero_i64_ref", "znx_zero__c")}
K_AVX = dict(K_REF, add=("znx_add_i64_avx", "znx_add__c"), sub=("znx_sub_i64_avx", "znx_sub__c"),
             negate=("znx_negate_i64_avx", "znx_negate__c"))

FUNCS3 = {
    "vec_znx_add_ref": ("arithmetic/vec_znx.c", "vec_znx_add__c", [K_REF["add"], K_REF["copy"], K_REF["zero"]]),
    "vec_znx_sub_ref": ("arithmetic/vec_znx.c", "vec_znx_sub__c", [K_REF["sub"], K_REF["copy"], K_REF["negate"], K_REF["zero"]]),
    "vec_znx_add_avx": ("arithmetic/vec_znx_avx.c", "vec_znx_add__c", [K_AVX["add"], K_AVX["copy"], K_AVX["zero"]]),
    "vec_znx_sub_avx": ("arithmetic/vec_znx_avx.c", "vec_znx_sub__c", [K_AVX["sub"], K_AVX["copy"], K_AVX["negate"], K_AVX["zero"]]),
}
FUNCS2 = {
    "vec_znx_negate_ref": ("arithmetic/vec_znx.c", "vec_znx_negate__c", [K_REF["negate"], K_REF["zero"]]),
    "vec_znx_negate_avx": ("arithmetic/vec_znx_avx.c", "vec_znx_negate__c", [K_AVX["negate"], K_AVX["zero"]]),
    "vec_znx_copy_ref": ("arithmetic/vec_znx.c", "vec_znx_copy__c", [K_REF["copy"], K_REF["zero"]]),
}


def stride_pick(seed, n, salt):
    """rotate stride patterns with the seed so that successive quick runs sweep the box"""
    return STRIDES[(seed + salt) % 3], STRIDES[(seed + salt // 3 + 1) % 3], STRIDES[(seed + salt // 9 + 2) % 3]


def mk(fn, src, contract, repl, shape, strides, alias, tier, props, gq=0):
    rs, as_, bs = shape
    (rm, ra), (am, aa), (bm, ba) = strides
    if alias == 1:
        am, aa = rm, ra
    if alias == 2:
        bm, ba = rm, ra
    if alias == 3:
        bm, ba = am, aa
    rext = max(rs, as_) if alias == 1 else (max(rs, bs) if alias == 2 else rs)
    d = {"REXT": rext, "RS": rs, "AS": as_, "RM": rm, "RA": ra, "AM": am, "AA": aa, "ALIAS": alias, "GQ": gq}
    nm = "vec.%s.r%da%d" % (fn, rs, as_)
    if bs is not None:
        d.update({"BS": bs, "BM": bm, "BA": ba})
        nm += "b%d" % bs
    nm += ".s%d%d_%d%d" % (rm, ra, am, aa) + ("_%d%d" % (bm, ba) if bs is not None else "") + ".al%d.q%d" % (alias, gq)
    mx = max(rs, as_, bs or 0)
    return Job(name=nm, props=props, shape="S3", sources=[src], harness=H, entry="h_" + fn,
               enforce=[(fn, contract)], replace=repl, defines=d,
               unwindset=[], cbmc_flags=["--unwind", str(mx + 2), "--unwinding-assertions"],
               functions=[fn], solver="minisat", timeout=900, tier=tier,
               bound_note="limb counts (res,a,b)=(%s,%s,%s), strides N*%d+%d/N*%d+%d, alias mode %d; unbounded in N<=65536 and data"
                          % (rs, as_, bs, rm, ra, am, aa, alias),
               replay={"driver": "vec_znx", "fn": fn})


# quick box: one representative per weak ordering of (res,a,b) sizes, plus zeros
QUICK3 = [(0, 0, 0), (1, 1, 1), (2, 2, 2), (1, 2, 2), (2, 1, 1), (2, 1, 2), (1, 2, 1), (2, 2, 1), (1, 1, 2),
          (1, 2, 3), (1, 3, 2), (2, 1, 3), (2, 3, 1), (3, 1, 2), (3, 2, 1), (2, 0, 1), (2, 1, 0), (0, 1, 2), (1, 0, 0), (3, 0, 0)]
# aliased shapes: equal sizes, result shorter than the aliased operand, and -- added after seed C13-add_inplace_skip_zero_ext was missed by
# the quick tier -- result LONGER than the aliased operand (zero-extension limbs while aliased), with the other operand shorter / equal / empty
ALIAS3 = {1: [(1, 1, 1), (2, 1, 2), (1, 2, 0), (3, 2, 1), (2, 1, 0), (2, 1, 1)], 2: [(1, 1, 1), (2, 2, 1), (1, 0, 2), (3, 1, 2), (2, 1, 1), (1, 0, 0)], 3: [(2, 2, 2), (1, 2, 2)]}
QUICK2 = [(0, 0), (1, 1), (2, 2), (1, 2), (2, 1), (3, 1), (1, 3), (0, 2), (2, 0)]
ALIAS2 = [(1, 1), (2, 1), (1, 2), (3, 2)]


def jobs(seed=0):
    J = []
    P = ["C08", "C13", "C11", "C18", "C07"]
    for fn, (src, contract, repl) in FUNCS3.items():
        seen = set()
        for n, sh in enumerate(QUICK3):
            J.append(mk(fn, src, contract, repl, sh, stride_pick(seed, 3, n), 0, "quick", P, gq=0 if sh[0] < 3 else 1))
            seen.add((sh, 0))
        for al, shapes in ALIAS3.items():
            for n, sh in enumerate(shapes):
                J.append(mk(fn, src, contract, repl, sh, stride_pick(seed, 3, n + al), al, "quick", P))
        # fixed (seed-independent) out-of-place shapes with EQUAL padded strides and at least two common limbs: block-move fast
        # paths keyed on "same slice" touch the padding (or an interleaved source) only there -- added after seed
        # C18-copy_same_slice_block was missed by a quick run whose rotated stride patterns had no such shape
        have = set(j.name for j in J)
        for sh in ((2, 2, 2), (3, 2, 2)):
            for st in (STRIDES[1], STRIDES[2]):
                j = mk(fn, src, contract, repl, sh, (st, st, st), 0, "quick", P)
                if j.name not in have:
                    have.add(j.name)
                    J.append(j)
        # thorough: whole box to 4 limbs, every stride pattern for the non-aliased case
        for sh in itertools.product(range(4), repeat=3):
            for sp in [(STRIDES[0],) * 3, (STRIDES[1],) * 3, (STRIDES[2],) * 3, (STRIDES[1], STRIDES[2], STRIDES[0])]:
                J.append(mk(fn, src, contract, repl, sh, sp, 0, "thorough", P, gq=(sum(sh) % max(1, sh[0]))))
    for fn, (src, contract, repl) in FUNCS2.items():
        for n, sh in enumerate(QUICK2):
            J.append(mk(fn, src, contract, repl, (sh[0], sh[1], None), stride_pick(seed, 2, n), 0, "quick", P,
                        gq=0 if sh[0] < 3 else 1))
        for n, sh in enumerate(ALIAS2):
            J.append(mk(fn, src, contract, repl, (sh[0], sh[1], None), stride_pick(seed, 2, n + 1), 1, "quick", P))
        have = set(j.name for j in J)
        for sh in ((2, 2), (3, 2), (2, 3)):
            for st in (STRIDES[1], STRIDES[2]):
                j = mk(fn, src, contract, repl, (sh[0], sh[1], None), (st, st, (1, 0)), 0, "quick", P)
                if j.name not in have:
                    have.add(j.name)
                    J.append(j)
        for sh in itertools.product(range(4), repeat=2):
            for sp in itertools.product(STRIDES, repeat=2):
                J.append(mk(fn, src, contract, repl, (sh[0], sh[1], None), (sp[0], sp[1], (1, 0)), 0, "thorough", P,
                            gq=(sum(sh) % max(1, sh[0]))))
    for rs in range(4):
        st = STRIDES[(seed + rs) % 3]
        J.append(Job(name="vec.vec_znx_zero_ref.r%d.s%d%d" % (rs, st[0], st[1]), props=["C08", "C11", "C15"], shape="S3",
                     sources=["arithmetic/vec_znx.c"], harness=H, entry="h_vec_znx_zero_ref",
                     enforce=[("vec_znx_zero_ref", "vec_znx_zero__c")], replace=[K_REF["zero"]],
                     defines={"RS": rs, "REXT": rs, "RM": st[0], "RA": st[1], "GQ": 0},
                     cbmc_flags=["--unwind", str(rs + 2), "--unwinding-assertions"], functions=["vec_znx_zero_ref"],
                     bound_note="res limbs %d" % rs, replay={"driver": "vec_znx", "fn": "vec_znx_zero_ref"}))
    NQ = [(0, 0), (0, 1), (1, 0), (1, 1), (1, 2), (2, 1), (2, 2), (0, 2), (2, 0), (1, 3), (3, 1)]
    for n, (rs, as_) in enumerate(NQ):
        sp = stride_pick(seed, 2, n)
        J.append(norm_job(rs, as_, (sp[0], sp[1]), 0, "quick"))
    for n, (rs, as_) in enumerate([(1, 1), (2, 2), (1, 2), (2, 1)]):
        sp = stride_pick(seed, 2, n + 1)
        J.append(norm_job(rs, as_, (sp[0], sp[1]), 1, "quick"))
    for n, (rs, as_) in enumerate([(2, 3), (3, 2), (3, 3), (0, 3), (3, 0)]):
        sp = stride_pick(seed, 2, n)
        j = norm_job(rs, as_, (sp[0], sp[1]), 0, "thorough")
        j.timeout = 3000
        J.append(j)
    J += rot_vec_jobs(seed)
    J += big_jobs(seed)
    J += dft_jobs(seed)
    J += bignorm_jobs(seed)
    J += vmp_concrete_jobs(seed)
    J.append([j for j in vmp_jobs(seed) if j.name == "vmp.tmp_bytes_formulas"][0])
    # vmp_jobs(seed) (contracts/vec_vmp.c) is NOT registered: with the matrix strides nrows*ncols*nn symbolic in nn most runs
    # exhaust the solver's memory or time, and dfcc rejects the loop contract on the block loop that contains the column
    # loop; the VMP wrappers are not covered (DESIGN 5/C11).
    NQ4 = [(1, 4)]
    for n, (rs, as_) in enumerate(NQ4):
        sp = stride_pick(seed, 2, n)
        J.append(norm_job(rs, as_, (sp[0], sp[1]), 0, "quick"))
    # concrete-k twins of the deepest dropped-limb shapes: when a change makes the limb schedule depend on k the
    # symbolic-k run can exhaust the solver (undecided); with k fixed the schedule is concrete again
    for (rs, as_, kk) in [(1, 4, 62), (1, 4, 33), (1, 3, 62), (2, 4, 62)] + [(r, a_, k_) for (r, a_) in NQ if r and a_ for k_ in (1, 62) if (r, a_, k_) != (1, 3, 62)]:
        sp = stride_pick(seed, 2, kk)
        J.append(norm_job(rs, as_, (sp[0], sp[1]), 0, "quick" if rs == 1 else "thorough", k=kk))
    for n, (rs, as_) in enumerate([(2, 4), (4, 1)]):
        sp = stride_pick(seed, 2, n)
        j = norm_job(rs, as_, (sp[0], sp[1]), 0, "thorough")
        j.timeout = 3000
        J.append(j)
    names = set()
    out = []
    for j in J:
        if j.name in names:
            continue
        names.add(j.name)
        out.append(j)
    return out


# ---------------------------------------------------------------------------------------------------------------
# vec_znx_normalize_base2k_ref (C05, S3): znx_normalize and znx_zero replaced by their contracts

def norm_job(rs, as_, st, alias, tier, k=None, gq=0):
    (rm, ra), (am, aa) = st
    if alias == 1:
        am, aa = rm, ra
    rext = max(rs, as_) if alias == 1 else rs
    d = {"RS": rs, "AS": as_, "REXT": rext, "RM": rm, "RA": ra, "AM": am, "AA": aa, "ALIAS": alias, "GQ": gq}
    nm = "vecnorm.ref.r%da%d.s%d%d_%d%d.al%d" % (rs, as_, rm, ra, am, aa, alias)
    if k is not None:
        d["NRM_K"] = k
        nm += ".k%02d" % k
    return Job(name=nm, props=["C05", "C13", "C11", "C18"], shape="S3", sources=["arithmetic/vec_znx.c"],
               harness="vec_norm.c", entry="h_vec_znx_normalize_base2k_ref",
               enforce=[("vec_znx_normalize_base2k_ref", "vec_znx_normalize__c")],
               replace=[("znx_normalize", "znx_normalize__c_lean"), K_REF["zero"]], defines=d,
               cbmc_flags=["--unwind", str(max(rs, as_) + 2), "--unwinding-assertions", "--no-signed-overflow-check",
                           "--no-undefined-shift-check", "--object-bits", "11"],
               functions=["vec_znx_normalize_base2k_ref"], solver="race", timeout=900, tier=tier,
               bound_note="limb counts (res,a)=(%d,%d), strides N*%d+%d/N*%d+%d, alias %d, k %s; unbounded in N and data"
                          % (rs, as_, rm, ra, am, aa, alias, "symbolic 1..62" if k is None else str(k)),
               replay={"driver": "vec_norm"})


def rot_vec_jobs(seed=0):
    J = []
    # every element kernel has a contract at hand: if a change introduces a call to one that the function did not use
    # before, the call is checked against that contract (frame!) instead of being a body-less havoc; contracts of
    # functions that are not called are dropped by the runner ("Function to replace ... not found")
    R = [("znx_rotate_i64", "znx_rotate__c"), ("znx_rotate_inplace_i64", "znx_rotate_inplace__c"), K_REF["zero"], K_REF["copy"], K_REF["negate"]]
    A = [("znx_automorphism_i64", "znx_automorphism__c"), ("znx_automorphism_inplace_i64", "znx_automorphism_inplace__c"), K_REF["zero"], K_REF["copy"], K_REF["negate"]]
    for fn, contract, repl in (("vec_znx_rotate_ref", "vec_znx_rotate__c", R), ("vec_znx_automorphism_ref", "vec_znx_automorphism__c", A)):
        for n, sh in enumerate(QUICK2):
            for alias, tier in ((0, "quick"), (1, "quick")):
                if alias == 1 and (sh[0] == 0 or sh[1] == 0):
                    continue
                j = mk(fn, "arithmetic/vec_znx.c", contract, repl, (sh[0], sh[1], None), stride_pick(seed, 2, n + alias), alias, tier,
                       ["C09", "C08", "C13", "C11", "C18", "C12"])
                j.harness = "vec_rot.c"
                j.cbmc_flags = j.cbmc_flags + ["--no-signed-overflow-check"]
                j.bound_note += "; in-place kernel contract assumed (bounded S4 evidence)"
                J.append(j)
    return J


# ---------------------------------------------------------------------------------------------------------------
# fft64 big-coefficient wrappers (arithmetic/vec_znx_big.c): forwarding proofs against the dispatcher contracts

BIG3 = {  # name: (function, contract, callee, callee contract, a is small, b is small)
    "big_add": ("fft64_vec_znx_big_add", "big_add__c", "vec_znx_add", "vec_znx_add__c", False, False),
    "big_sub": ("fft64_vec_znx_big_sub", "big_sub__c", "vec_znx_sub", "vec_znx_sub__c", False, False),
    "big_add_small": ("fft64_vec_znx_big_add_small", "big_add_small__c", "vec_znx_add", "vec_znx_add__c", False, True),
    "big_sub_small_b": ("fft64_vec_znx_big_sub_small_b", "big_sub_small_b__c", "vec_znx_sub", "vec_znx_sub__c", False, True),
    "big_sub_small_a": ("fft64_vec_znx_big_sub_small_a", "big_sub_small_a__c", "vec_znx_sub", "vec_znx_sub__c", True, False),
    "big_add_small2": ("fft64_vec_znx_big_add_small2", "big_add_small2__c", "vec_znx_add", "vec_znx_add__c", True, True),
    "big_sub_small2": ("fft64_vec_znx_big_sub_small2", "big_sub_small2__c", "vec_znx_sub", "vec_znx_sub__c", True, True),
}


def big_jobs(seed=0):
    J = []
    shapes = [(2, 2, 2), (2, 1, 3), (3, 2, 1), (1, 3, 2), (2, 0, 1), (0, 1, 1), (1, 1, 0)]
    for nm, (fn, c, callee, cc, asmall, bsmall) in BIG3.items():
        for n, (rs, as_, bs) in enumerate(shapes):
            for alias in (0, 1, 2):
                if alias and n > 2:
                    continue
                if alias == 1 and (asmall and False):
                    continue
                am, aa = (STRIDES[(seed + n + 1) % 3] if asmall else (1, 0))
                bm, ba = (STRIDES[(seed + n + 2) % 3] if bsmall else (1, 0))
                if asmall and bsmall and (am, aa) == (bm, ba):
                    bm, ba = STRIDES[(STRIDES.index((am, aa)) + 1) % 3]   # different strides expose a swapped stride
                if alias == 1:
                    am, aa = 1, 0
                if alias == 2:
                    bm, ba = 1, 0
                rext = max(rs, as_) if alias == 1 else (max(rs, bs) if alias == 2 else rs)
                d = {"RS": rs, "AS": as_, "BS": bs, "REXT": rext, "RM": 1, "RA": 0, "AM": am, "AA": aa, "BM": bm, "BA": ba, "ALIAS": alias}
                J.append(Job(name="big.%s.r%da%db%d.s%d%d_%d%d.al%d" % (nm, rs, as_, bs, am, aa, bm, ba, alias),
                             props=["C08", "C13", "C11", "C18", "C12"], shape="S3", sources=["arithmetic/vec_znx_big.c"],
                             harness="vec_big.c", entry="h_" + nm, enforce=[(fn, c)], replace=[(callee, cc)], defines=d,
                             functions=[fn], timeout=600,
                             bound_note="limb counts (%d,%d,%d), small strides N*%d+%d/N*%d+%d, alias %d; callee = dispatcher slot contract"
                                        % (rs, as_, bs, am, aa, bm, ba, alias), replay={"driver": "vec_big", "fn": fn}))
    for nm, fn, c, callee, cc in (("big_rotate", "fft64_vec_znx_big_rotate", "big_rotate__c", "vec_znx_rotate", "vec_znx_rotate__c"),
                                  ("big_automorphism", "fft64_vec_znx_big_automorphism", "big_automorphism__c", "vec_znx_automorphism", "vec_znx_automorphism__c")):
        for (rs, as_) in [(2, 2), (1, 2), (2, 1), (0, 1), (3, 0)]:
            for alias in (0, 1):
                if alias and rs * as_ == 0:
                    continue
                rext = max(rs, as_) if alias == 1 else rs
                d = {"RS": rs, "AS": as_, "REXT": rext, "RM": 1, "RA": 0, "AM": 1, "AA": 0, "ALIAS": alias}
                J.append(Job(name="big.%s.r%da%d.al%d" % (nm, rs, as_, alias), props=["C09", "C08", "C13", "C11", "C18"], shape="S3",
                             sources=["arithmetic/vec_znx_big.c"], harness="vec_big.c", entry="h_" + nm, enforce=[(fn, c)],
                             replace=[(callee, cc)], defines=d, functions=[fn], timeout=600,
                             cbmc_flags=["--no-signed-overflow-check"],
                             bound_note="limb counts (%d,%d), alias %d" % (rs, as_, alias), replay={"driver": "vec_big", "fn": fn}))
    return J


# ---------------------------------------------------------------------------------------------------------------
# FFT64 DFT / iDFT / SVP / small-product wrappers: frame and extent proofs with assumed callee frame contracts

DFT_REPL = [("reim_from_znx64", "reim_from_znx64__c"), ("reim_fft", "reim_fft__c"), ("reim_ifft", "reim_ifft__c"),
            ("reim_to_znx64", "reim_to_znx64__c"), ("reim_fftvec_mul", "reim_fftvec_mul__c")]


def dft_jobs(seed=0):
    J = []
    P = ["C11", "C18", "C15", "C12"]
    shapes = [(0, 0), (1, 1), (2, 2), (1, 2), (2, 1), (3, 1), (0, 2), (2, 0)]

    def add(nm, entry, fn, contract, srcs, rs, as_, alias=0, strides=(1, 0), extra_props=None):
        d = {"RS": rs, "AS": as_, "AM": strides[0], "AA": strides[1], "ALIAS": alias}
        J.append(Job(name="dft.%s.r%da%d.s%d%d.al%d" % (nm, rs, as_, strides[0], strides[1], alias), props=P + (extra_props or []), shape="S3", sources=srcs,
                     harness="vec_dft.c", entry=entry, enforce=[(fn, contract)], replace=list(DFT_REPL), defines=d,
                     cbmc_flags=["--unwind", str(max(rs, as_) + 2), "--unwinding-assertions", "--object-bits", "10"], functions=[fn], timeout=900,
                     bound_note="limb counts (res,a)=(%d,%d), alias %d; transform/conversion callees replaced by ASSUMED frame contracts" % (rs, as_, alias)))
    for n, (rs, as_) in enumerate(shapes):
        st = STRIDES[(seed + n) % 3]
        add("vec_znx_dft", "h_dft", "fft64_vec_znx_dft", "fft64_vec_znx_dft__c", ["arithmetic/vec_znx_dft.c"], rs, as_, strides=st)
        add("vec_znx_idft", "h_idft", "fft64_vec_znx_idft", "fft64_vec_znx_idft__c", ["arithmetic/vec_znx_dft.c"], rs, as_)
        if rs and as_:
            add("vec_znx_idft", "h_idft", "fft64_vec_znx_idft", "fft64_vec_znx_idft__c", ["arithmetic/vec_znx_dft.c"], rs, as_, alias=1, extra_props=["C13"])
        add("vec_znx_idft_tmp_a", "h_idft_tmp_a", "fft64_vec_znx_idft_tmp_a", "fft64_vec_znx_idft_tmp_a__c", ["arithmetic/vec_znx_dft.c"], rs, as_)
        add("svp_apply_dft", "h_svp_apply", "fft64_svp_apply_dft_ref", "fft64_svp_apply_dft__c", ["arithmetic/scalar_vector_product.c"], rs, as_, strides=st)
    # NTT120 wrappers: first withdrawn (is_fresh on members of the module's union lost the table's n == nn: spurious call-site
    # failures), registered again once the module and its tables are objects built by the harness (contracts/vec_dft.c)
    NTT_REPL = [("q120_b_from_znx64_simple", "q120_b_from_znx64_simple__c"), ("q120_ntt_bb_avx2", "q120_ntt_bb_avx2__c"),
                ("q120_intt_bb_avx2", "q120_intt_bb_avx2__c"), ("q120_b_to_znx128_simple", "q120_b_to_znx128_simple__c")]
    for n, (rs, as_) in enumerate(shapes):
        st = STRIDES[(seed + n) % 3]
        for nm, entry, fn, contract, strides in (("ntt120_vec_znx_dft", "h_ntt120_dft", "ntt120_vec_znx_dft_avx", "ntt120_vec_znx_dft__c", st),
                                                 ("ntt120_vec_znx_idft", "h_ntt120_idft", "ntt120_vec_znx_idft_avx", "ntt120_vec_znx_idft__c", (1, 0)),
                                                 ("ntt120_vec_znx_idft_tmp_a", "h_ntt120_idft_tmp_a", "ntt120_vec_znx_idft_tmp_a_avx", "ntt120_vec_znx_idft_tmp_a__c", (1, 0))):
            add(nm, entry, fn, contract, ["arithmetic/vec_znx_dft.c"], rs, as_, strides=strides)
            J[-1].replace = list(NTT_REPL)
            if nm == "ntt120_vec_znx_idft" and rs and as_:
                add(nm, entry, fn, contract, ["arithmetic/vec_znx_dft.c"], rs, as_, alias=1, extra_props=["C13"])
                J[-1].replace = list(NTT_REPL)
    add("svp_prepare", "h_svp_prepare", "fft64_svp_prepare_ref", "fft64_svp_prepare__c", ["arithmetic/scalar_vector_product.c"], 1, 1)
    add("znx_small_single_product", "h_small_product", "fft64_znx_small_single_product", "fft64_znx_small_single_product__c", ["arithmetic/znx_small.c"], 1, 1)
    J.append(Job(name="dft.tmp_bytes_formulas", props=["C11"], shape="S2", sources=["arithmetic/znx_small.c", "arithmetic/vec_znx_dft.c", "arithmetic/vec_znx.c",
                                                                                   "arithmetic/vec_znx_big.c", "arithmetic/scalar_vector_product.c"],
                 harness="vec_dft.c", entry="h_tmp_bytes", no_dfcc=True, defines={"RS": 1, "AS": 1}, cbmc_flags=["--unwind", "3", "--object-bits", "10"],
                 functions=["fft64_znx_small_single_product_tmp_bytes", "fft64_vec_znx_idft_tmp_bytes", "vec_znx_normalize_base2k_tmp_bytes_ref", "fft64_bytes_of_vec_znx_dft",
                            "fft64_bytes_of_vec_znx_big", "fft64_bytes_of_svp_ppol"], timeout=300))
    return J


def vmp_concrete_jobs(seed=0):
    """bounded stand-in (S4) for the VMP wrappers: concrete ring dimension N as well as concrete shape, so that every matrix stride is
    a constant; the reim4 block kernels are the REAL ones (inlined, unwound; AVX2 ones through the intrinsics shim), only the
    FFT-side callees are assumed frames"""
    J = []
    REPL = [("reim_fftvec_mul", "reim_fftvec_mul__c"), ("reim_fftvec_addmul", "reim_fftvec_addmul__c"), ("reim_from_znx64", "reim_from_znx64__c"), ("reim_fft", "reim_fft__c")]
    shapes = [(2, 2, 2, 2), (1, 2, 2, 3), (3, 1, 2, 2), (2, 3, 2, 1), (3, 2, 1, 2), (2, 2, 3, 3),
              (0, 1, 1, 1), (1, 0, 1, 1), (0, 2, 2, 2), (2, 0, 2, 2), (2, 2, 0, 2), (2, 2, 2, 0), (1, 1, 1, 1)]
    for var, SRC_, avx in (("ref", ["arithmetic/vector_matrix_product.c", "reim4/reim4_arithmetic_ref.c"], False),
                           ("avx", ["arithmetic/vector_matrix_product_avx.c", "reim4/reim4_arithmetic_avx2.c"], True)):
        props = ["C11", "C18", "C15"] + (["C07"] if avx else [])
        for (rs, as_, nr, nc) in shapes:
            for n in (4, 8, 16):
                core_shape = (rs, as_, nr, nc) in ((2, 2, 2, 2), (1, 2, 2, 3), (3, 1, 2, 2))
                tier = "quick" if (n in (4, 8) and (0 in (rs, as_, nr, nc) or core_shape) and (not avx or n == 8 or 0 in (rs, as_, nr, nc))) else "thorough"
                d = {"RS": rs, "AS": as_, "NR": nr, "NC": nc, "NBIG": 1 if n >= 8 else 0, "NCONC": n}
                if avx:
                    d["VMP_AVX"] = 1
                fn = "fft64_vmp_apply_dft_to_dft_" + var
                J.append(Job(name="vmp.apply_dft_to_dft_%s.r%da%d.m%dx%d.N%d" % (var, rs, as_, nr, nc, n), props=props, shape="S4",
                             sources=SRC_, harness="vec_vmp.c", entry="h_vmp_apply_dft_to_dft", enforce=[(fn, "vmp_apply_dft_to_dft__c")], avx=avx,
                             replace=list(REPL), defines=d, pre_unwindset=["*:10"], cbmc_flags=["--object-bits", "10"],
                             functions=[fn], timeout=600, tier=tier, replay={"driver": "vmp", "fn": "apply_dft_to_dft_" + var},
                             # CBMC's libm model asserts in feraiseexcept when an fma of nondeterministic doubles is invalid/inexact: IEEE exceptions
                             # are sticky flags, not traps, in the library's environment (no feenableexcept anywhere in /repo)
                             waive=[r"floating-point exception"],
                             bound_note="N=%d, shape (res,a,nrows,ncols)=(%d,%d,%d,%d), all data; FFT-side callees replaced by ASSUMED frame contracts" % (n, rs, as_, nr, nc)))
        for (rs, as_, nr, nc) in [(2, 2, 2, 2), (1, 3, 2, 2), (2, 1, 3, 2), (2, 0, 2, 2), (0, 2, 2, 1), (2, 2, 0, 2)]:
            for n in (4, 8):
                d = {"RS": rs, "AS": as_, "NR": nr, "NC": nc, "NBIG": 1 if n >= 8 else 0, "NCONC": n}
                if avx:
                    d["VMP_AVX"] = 1
                fn = "fft64_vmp_apply_dft_" + var
                J.append(Job(name="vmp.apply_dft_%s.r%da%d.m%dx%d.N%d" % (var, rs, as_, nr, nc, n), props=["C11", "C18", "C15"], shape="S4",
                             sources=SRC_[:1] + ["arithmetic/vec_znx_dft.c"], harness="vec_vmp.c", entry="h_vmp_apply_dft", enforce=[(fn, "vmp_apply_dft__c")], avx=avx,
                             replace=[("fft64_vec_znx_dft", "vec_znx_dft_site__c"), ("fft64_vmp_apply_dft_to_dft_" + var, "vmp_apply_dft_to_dft_site__c")],
                             defines=d, cbmc_flags=["--object-bits", "10"], functions=[fn], timeout=600, tier="quick" if (n == 8 or not avx) else "thorough", replay={"driver": "vmp", "fn": "apply_dft_full_" + var},
                             bound_note="N=%d, shape (res,a,nrows,ncols)=(%d,%d,%d,%d), a stride N+1: scratch partition [rows*N*8 | 128 | 64*rows] against the two callee contracts" % (n, rs, as_, nr, nc)))
        for (nr, nc) in [(1, 1), (2, 2), (2, 3), (3, 1), (0, 2), (2, 0)]:
            for n in (4, 8, 16):
                d = {"RS": 1, "AS": 1, "NR": nr, "NC": nc, "NBIG": 1 if n >= 8 else 0, "NCONC": n}
                if avx:
                    d["VMP_AVX"] = 1
                fn = "fft64_vmp_prepare_contiguous_" + var
                J.append(Job(name="vmp.prepare_contiguous_%s.m%dx%d.N%d" % (var, nr, nc, n), props=["C11", "C18"], shape="S4",
                             sources=SRC_, harness="vec_vmp.c", entry="h_vmp_prepare", enforce=[(fn, "vmp_prepare_contiguous__c")], avx=avx,
                             replace=list(REPL), defines=d, pre_unwindset=["*:10"], cbmc_flags=["--object-bits", "10"],
                             functions=[fn], timeout=600, tier="quick" if (n == 8 or (n == 4 and not avx)) else "thorough", replay={"driver": "vmp", "fn": "prepare_contiguous_" + var},
                             bound_note="N=%d, matrix %dx%d" % (n, nr, nc)))
    return J


def vmp_jobs(seed=0):
    J = []
    SRC_ = ["arithmetic/vector_matrix_product.c"]
    REPL = [("reim4_extract_1blk_from_contiguous_reim_ref", "reim4_extract_1blk_from_contiguous_reim_ref__c"),
            ("reim4_vec_mat2cols_product_ref", "reim4_vec_mat2cols_product_ref__c"), ("reim4_vec_mat1col_product_ref", "reim4_vec_mat1col_product_ref__c"),
            ("reim4_save_1blk_to_reim_ref", "reim4_save_1blk_to_reim_ref__c"), ("reim4_extract_1blk_from_reim_ref", "reim4_extract_1blk_from_reim_ref__c"),
            ("reim_fftvec_mul", "reim_fftvec_mul__c"), ("reim_fftvec_addmul", "reim_fftvec_addmul__c"),
            ("reim_from_znx64", "reim_from_znx64__c"), ("reim_fft", "reim_fft__c")]
    shapes = [(2, 2, 2, 2), (1, 2, 2, 3), (3, 1, 2, 2), (2, 3, 2, 1), (0, 1, 1, 1), (1, 0, 1, 1), (3, 2, 1, 2), (2, 2, 3, 3)]
    for (rs, as_, nr, nc) in shapes:
        for nbig in (1, 0):
            d = {"RS": rs, "AS": as_, "NR": nr, "NC": nc, "NBIG": nbig}
            loops = {"fft64_vmp_apply_dft_to_dft_ref": {"count": 5, "loops": [
                {"id": 1, "assigns": "blk_i, __CPROVER_object_upto(res, %d * nn * 8), __CPROVER_object_upto(tmp_space, %d)" % (rs, 128 + 64 * min(nr, as_)),
                 "invariants": "blk_i <= m / 4", "decreases": "m / 4 - blk_i"}]}} if nbig else {}
            J.append(Job(name="vmp.apply_dft_to_dft_ref.r%da%d.m%dx%d.%s" % (rs, as_, nr, nc, "N8" if nbig else "N4"), props=["C11", "C18", "C15", "C12"], shape="S3",
                         sources=SRC_, harness="vec_vmp.c", entry="h_vmp_apply_dft_to_dft", enforce=[("fft64_vmp_apply_dft_to_dft_ref", "vmp_apply_dft_to_dft__c")],
                         replace=list(REPL), defines=d, loops=loops,
                         cbmc_flags=["--unwind", str(max(rs, as_, nr, nc) + 3), "--unwinding-assertions", "--object-bits", "10"],
                         functions=["fft64_vmp_apply_dft_to_dft_ref"], timeout=900,
                         bound_note="shape (res,a,nrows,ncols)=(%d,%d,%d,%d), %s; callees replaced by ASSUMED frame contracts" % (rs, as_, nr, nc, "every N >= 8" if nbig else "N in {2,4}")))
    for (nr, nc) in [(1, 1), (2, 2), (2, 3), (3, 1)]:
        for nbig in (1, 0):
            d = {"RS": 1, "AS": 1, "NR": nr, "NC": nc, "NBIG": nbig}
            loops = {"fft64_vmp_prepare_contiguous_ref": {"count": 5, "loops": [
                {"id": 0, "assigns": "blk_i, __CPROVER_object_upto(pmat, %d * nn * 8)" % (nr * nc), "invariants": "blk_i <= m / 4", "decreases": "m / 4 - blk_i"}]}} if nbig else {}
            J.append(Job(name="vmp.prepare_contiguous_ref.m%dx%d.%s" % (nr, nc, "N8" if nbig else "N4"), props=["C11", "C18", "C12"], shape="S3",
                         sources=SRC_, harness="vec_vmp.c", entry="h_vmp_prepare", enforce=[("fft64_vmp_prepare_contiguous_ref", "vmp_prepare_contiguous__c")],
                         replace=list(REPL), defines=d, loops=loops,
                         cbmc_flags=["--unwind", str(max(nr, nc) + 3), "--unwinding-assertions", "--object-bits", "10"],
                         functions=["fft64_vmp_prepare_contiguous_ref"], timeout=900,
                         bound_note="matrix %dx%d, %s" % (nr, nc, "every N >= 8" if nbig else "N in {2,4}")))
    J.append(Job(name="vmp.tmp_bytes_formulas", props=["C11"], shape="S4", sources=SRC_, harness="vec_vmp.c", entry="h_vmp_tmp_bytes", no_dfcc=True,
                 defines={"RS": 1, "AS": 1, "NR": 1, "NC": 1, "NBIG": 1}, cbmc_flags=["--unwind", "18", "--unwinding-assertions", "--object-bits", "10"],
                 functions=["fft64_bytes_of_vmp_pmat", "fft64_vmp_apply_dft_to_dft_tmp_bytes", "fft64_vmp_apply_dft_tmp_bytes", "fft64_vmp_prepare_contiguous_tmp_bytes"], timeout=300))
    return J


def bignorm_jobs(seed=0):
    """fft64 big / range normalize: forwarding through module->func.vec_znx_normalize_base2k (restricted function pointer)"""
    J = []
    for nm, entry, fn, c, cases in (
            ("big_normalize", "h_big_normalize", "fft64_vec_znx_big_normalize_base2k", "big_normalize__c", [(2, 2, 0, 1, 0), (1, 3, 0, 1, 0), (3, 1, 0, 1, 0), (2, 0, 0, 1, 0)]),
            ("big_range_normalize", "h_big_range_normalize", "fft64_vec_znx_big_range_normalize_base2k", "big_range_normalize__c",
             [(2, 2, 0, 1, 0), (2, 2, 1, 2, 0), (2, 2, 1, 2, 1), (1, 3, 0, 2, 0), (2, 1, 3, 3, 2), (2, 0, 1, 2, 0)])):
        for n, (rs, as_, rb, rstep, rex) in enumerate(cases):
            st = STRIDES[(seed + n) % 3]
            d = {"RS": rs, "AS": as_, "REXT": rs, "RM": st[0], "RA": st[1], "AM": rstep, "AA": 0, "ALIAS": 0, "RBEGIN": rb, "RSTEP": rstep, "REND_EXTRA": rex}
            J.append(Job(name="bignorm.%s.r%da%d.b%ds%de%d.s%d%d" % (nm, rs, as_, rb, rstep, rex, st[0], st[1]), props=["C05", "C11", "C18"], shape="S3",
                         sources=["arithmetic/vec_znx_big.c", "arithmetic/vec_znx.c"], harness="vec_bignorm.c", entry=entry, enforce=[(fn, c)],
                         replace=[("vec_znx_normalize_base2k_ref", "vec_znx_normalize__c")], defines=d,
                         restrict_fp=["%s.function_pointer_call.1/vec_znx_normalize_base2k_ref" % fn],
                         cbmc_flags=["--unwind", "4", "--unwinding-assertions", "--no-signed-overflow-check", "--no-undefined-shift-check", "--object-bits", "11"],
                         functions=[fn], timeout=900, solver="race",
                         bound_note="res limbs %d, selected big limbs %d (begin %d, step %d), k symbolic; callee = slot contract of vec_znx_normalize_base2k_ref" % (rs, as_, rb, rstep)))
    return J
