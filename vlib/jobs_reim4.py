# C17: block layouts (reim4) -- data movement
from .core import Job


def jobs(seed=0):
    J = []
    for nm, entry, fn, c, src in (("extract_ref", "h_extract_ref", "reim4_extract_1blk_from_reim_ref", "reim4_extract_1blk__c", "reim4/reim4_arithmetic_ref.c"),
                                  ("extract_avx", "h_extract_avx", "reim4_extract_1blk_from_reim_avx", "reim4_extract_1blk__c", "reim4/reim4_arithmetic_avx2.c"),
                                  ("save_ref", "h_save_ref", "reim4_save_1blk_to_reim_ref", "reim4_save_1blk__c", "reim4/reim4_arithmetic_ref.c"),
                                  ("save_avx", "h_save_avx", "reim4_save_1blk_to_reim_avx", "reim4_save_1blk__c", "reim4/reim4_arithmetic_avx2.c")):
        J.append(Job(name="reim4." + nm, props=["C17", "C07", "C11", "C18", "C15"], shape="S2", sources=[src], harness="reim4.c", entry=entry,
                     enforce=[(fn, c)], functions=[fn], timeout=900, solver="race", defines={"SLX": 0},
                     bound_note="all m = 4..65536 (multiple of 4), all block indices, all data"))
    for variant, fn, src in ((0, "reim4_extract_1blk_from_contiguous_reim_ref", "reim4/reim4_arithmetic_ref.c"),
                             (1, "reim4_extract_1blk_from_contiguous_reim_avx", "reim4/reim4_arithmetic_avx2.c"),
                             (2, "reim4_extract_1blk_from_contiguous_reim_sl_ref", "reim4/reim4_arithmetic_ref.c"),
                             (3, "reim4_extract_1blk_from_contiguous_reim_sl_avx", "reim4/reim4_arithmetic_avx2.c")):
        for nrows in (0, 1, 3):
            for mm in (4, 16):
                J.append(Job(name="reim4.%s.rows%d.m%d" % (fn.replace("reim4_extract_1blk_from_", "x_"), nrows, mm), props=["C17", "C07", "C11", "C18"],
                             shape="S4", sources=[src], harness="reim4.c", entry="h_extract_contiguous", no_dfcc=True,
                             defines={"NROWS": nrows, "VARIANT": variant, "MM": mm, "SLX": 0 if variant < 2 else 5},
                             cbmc_flags=["--unwind", str(max(2 * nrows, nrows * (2 * mm + 5)) + 3), "--unwinding-assertions"], functions=[fn],
                             timeout=900, bound_note="nrows=%d, m=%d, all block indices, all data" % (nrows, mm)))
    CS = ["reim4/reim4_fftvec_conv_ref.c", "reim4/reim4_fftvec_conv_fma.c", "commons_private.c", "commons.c"]
    for cv, nm in ((0, "ref"), (1, "fma")):
        for mm in (4, 8, 16):
            J.append(Job(name="reim4.cplx_roundtrip.%s.m%d" % (nm, mm), props=["C17", "C07", "C11"], shape="S4", sources=CS, harness="reim4.c",
                         entry="h_cplx_roundtrip", no_dfcc=True, defines={"MM": mm, "CVARIANT": cv, "SLX": 0},
                         cbmc_flags=["--unwind", str(2 * mm + 3), "--unwinding-assertions", "--object-bits", "10"],
                         functions=["reim4_from_cplx_" + nm, "reim4_to_cplx_" + nm, "init_reim4_from_cplx_precomp", "init_reim4_to_cplx_precomp"],
                         timeout=900, bound_note="m=%d complex numbers, all data" % mm))
    R4 = ["reim4/reim4_arithmetic_ref.c"]
    RP = [("reim4_zero", "reim4_zero__c"), ("reim4_add_mul", "reim4_add_mul__c")]
    J.append(Job(name="reim4.vec_mat1col_product_ref", props=["C17", "C11", "C18", "C15"], shape="S1", sources=R4, harness="reim4_prod.c", entry="h_mat1col",
                 enforce=[("reim4_vec_mat1col_product_ref", "mat1col__c")], replace=RP,
                 loops={"reim4_vec_mat1col_product_ref": {"count": 1, "loops": [{"id": 0, "assigns": "i, j, __CPROVER_object_upto(dst, 64)", "invariants": "i <= nrows && j == 8 * i", "decreases": "nrows - i"}]}},
                 functions=["reim4_vec_mat1col_product_ref"], timeout=600, bound_note="every nrows <= 100000; leaf kernels replaced by assumed frames"))
    J.append(Job(name="reim4.vec_mat2cols_product_ref", props=["C17", "C11", "C18", "C15"], shape="S1", sources=R4, harness="reim4_prod.c", entry="h_mat2cols",
                 enforce=[("reim4_vec_mat2cols_product_ref", "mat2cols__c")], replace=RP,
                 loops={"reim4_vec_mat2cols_product_ref": {"count": 1, "loops": [{"id": 0, "assigns": "i, j, __CPROVER_object_upto(dst, 128)", "invariants": "i <= nrows && j == 8 * i", "decreases": "nrows - i"}]}},
                 functions=["reim4_vec_mat2cols_product_ref"], timeout=600, bound_note="every nrows <= 100000"))
    J.append(Job(name="reim4.convolution_1coeff_ref", props=["C17", "C11", "C18", "C15"], shape="S1", sources=R4, harness="reim4_prod.c", entry="h_conv1",
                 enforce=[("reim4_convolution_1coeff_ref", "conv1__c")], replace=RP,
                 loops={"reim4_convolution_1coeff_ref": {"count": 1, "loops": [{"id": 0, "assigns": "j, __CPROVER_object_upto(dest, 64)",
                        "invariants": "jmin <= j && j <= jmax && jmax <= sizeb && jmax <= k + 1 && k < jmin + sizea", "decreases": "jmax - j"}]}},
                 functions=["reim4_convolution_1coeff_ref"], timeout=600, bound_note="every k, sizea, sizeb <= 100000: window bounds jmin/jmax keep a + 8(k-j) and b + 8j inside the operands"))
    J.append(Job(name="reim4.convolution_2coeff_ref", props=["C17", "C11", "C18", "C15"], shape="S2", sources=R4, harness="reim4_prod.c", entry="h_conv2",
                 enforce=[("reim4_convolution_2coeff_ref", "conv2__c")], replace=[("reim4_convolution_1coeff_ref", "conv1_view__c")],
                 functions=["reim4_convolution_2coeff_ref"], timeout=600, bound_note="loop-free; the 1-coefficient kernel is replaced by its contract + ghost view"))
    J.append(Job(name="reim4.convolution_ref", props=["C17", "C11", "C18", "C15"], shape="S1", sources=R4, harness="reim4_prod.c", entry="h_conv",
                 enforce=[("reim4_convolution_ref", "conv__c")],
                 replace=[("reim4_convolution_1coeff_ref", "conv1_view__c"), ("reim4_convolution_2coeff_ref", "conv2_view__c")],
                 loops={"reim4_convolution_ref": {"count": 1, "loops": [{"id": 0, "assigns": "k, GVIEW, __CPROVER_object_upto(dest, dest_size * 64)",
                        "invariants": "k <= dest_size && (GC < k ==> (GVIEW == GC + dest_offset && ((GC + dest_offset + 1 < sizea + sizeb && sizea != 0 && sizeb != 0) || ((const unsigned long*)(dest + 8 * GC))[GK] == 0)))",
                        "decreases": "dest_size - k"}]}},
                 functions=["reim4_convolution_ref"], timeout=600,
                 bound_note="every dest_size, dest_offset, sizea, sizeb <= 100000: block g of the window holds coefficient dest_offset+g (ghost view of one tracked block)"))
    # fftvec_jobs() (contracts/fftvec.c) are NOT registered: every run timed out on both SAT back ends -- equality of two
    # IEEE-754 multiplier circuits, even at m=1 (DESIGN 5/C17, 5/C13: pointwise products not covered)
    return J


def fftvec_jobs():
    J = []
    V = [(0, "reim_ref", ["reim/reim_fftvec_addmul_ref.c"], ["reim_fftvec_mul_ref", "reim_fftvec_addmul_ref"], (1, 2, 4)),
         (1, "reim_fma", ["reim/reim_fftvec_addmul_fma.c"], ["reim_fftvec_mul_fma", "reim_fftvec_addmul_fma"], (4, 8)),
         (2, "cplx_ref", ["cplx/cplx_fftvec_ref.c"], ["cplx_fftvec_mul_ref", "cplx_fftvec_addmul_ref"], (1, 2, 4)),
         (3, "reim4_ref", ["reim4/reim4_fftvec_addmul_ref.c"], ["reim4_fftvec_mul_ref", "reim4_fftvec_addmul_ref"], (4, 8)),
         (4, "reim4_fma", ["reim4/reim4_fftvec_addmul_fma.c"], ["reim4_fftvec_mul_fma", "reim4_fftvec_addmul_fma"], (4, 8))]
    for fv, nm, srcs, fns, ms in V:
        for m in ms:
            for acc in (0, 1):
                for alias in (1, 2):
                    J.append(Job(name="fftvec.%s.%s.m%d.al%d" % (nm, "addmul" if acc else "mul", m, alias), props=["C13", "C17", "C15"], shape="S4",
                                 sources=srcs + (["commons_private.c", "commons.c"] if "ref" in nm else []), harness="fftvec.c", entry="h_fftvec", no_dfcc=True,
                                 defines={"M": m, "FV": fv, "ALIAS": alias, "ACC": acc},
                                 cbmc_flags=["--unwind", str(2 * m + 3), "--unwinding-assertions", "--object-bits", "10"], functions=[fns[acc]],
                                 timeout=900, solver="race", tier="quick" if m <= 4 else "thorough",
                                 bound_note="complex dimension m=%d, every operand value, aliasing r==%s" % (m, "a" if alias == 1 else "b")))
    return J
