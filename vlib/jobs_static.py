# C12 / C15: supporting static facts (S7) -- inventory of static-lifetime state, entry-point reachability, cache keys
from .core import Job


# value-array caches: (function, header, source file, table type, init function, extra init args in the invariant / in the call,
#                      call text, static name, slots, kernel bodies removed)
ARRAY_CACHES = [
    ("reim_from_znx64_simple", "reim/reim_fft_private.h", "reim/reim_conversions.c", "REIM_FROM_ZNX64_PRECOMP", "init_reim_from_znx64_precomp", ", 0", ", log2bound",
     "reim_from_znx64_simple(m, log2bound, r, (const int64_t*)a)", "precomp", 32, ["reim_from_znx64_ref"]),
    ("cplx_from_znx32_simple", "cplx/cplx_fft_private.h", "cplx/cplx_conversions.c", "CPLX_FROM_ZNX32_PRECOMP", "init_cplx_from_znx32_precomp", "", "",
     "cplx_from_znx32_simple(m, r, (const int32_t*)a)", "precomp", 32, ["cplx_from_znx32_ref"]),
    ("cplx_from_tnx32_simple", "cplx/cplx_fft_private.h", "cplx/cplx_conversions.c", "CPLX_FROM_TNX32_PRECOMP", "init_cplx_from_tnx32_precomp", "", "",
     "cplx_from_tnx32_simple(m, r, (const int32_t*)a)", "precomp", 32, ["cplx_from_tnx32_ref"]),
    ("cplx_fftvec_mul_simple", "cplx/cplx_fft_private.h", "cplx/cplx_fftvec_ref.c", "CPLX_FFTVEC_MUL_PRECOMP", "init_cplx_fftvec_mul_precomp", "", "",
     "cplx_fftvec_mul_simple(m, r, a, b)", "p", 31, ["cplx_fftvec_mul_ref", "cplx_fftvec_addmul_ref"]),
    ("cplx_fftvec_addmul_simple", "cplx/cplx_fft_private.h", "cplx/cplx_fftvec_ref.c", "CPLX_FFTVEC_ADDMUL_PRECOMP", "init_cplx_fftvec_addmul_precomp", "", "",
     "cplx_fftvec_addmul_simple(m, r, a, b)", "p", 31, ["cplx_fftvec_mul_ref", "cplx_fftvec_addmul_ref"]),
    ("reim4_fftvec_mul_simple", "reim4/reim4_fftvec_private.h", "reim4/reim4_fftvec_addmul_ref.c", "REIM4_FFTVEC_MUL_PRECOMP", "init_reim4_fftvec_mul_precomp", "", "",
     "reim4_fftvec_mul_simple(m, r, a, b)", "precomp", 32, ["reim4_fftvec_mul_ref", "reim4_fftvec_addmul_ref"]),
    ("reim4_fftvec_addmul_simple", "reim4/reim4_fftvec_private.h", "reim4/reim4_fftvec_addmul_ref.c", "REIM4_FFTVEC_ADDMUL_PRECOMP", "init_reim4_fftvec_addmul_precomp", "", "",
     "reim4_fftvec_addmul_simple(m, r, a, b)", "precomp", 32, ["reim4_fftvec_mul_ref", "reim4_fftvec_addmul_ref"]),
    ("reim4_from_cplx_simple", "reim4/reim4_fftvec_private.h", "reim4/reim4_fftvec_conv_ref.c", "REIM4_FROM_CPLX_PRECOMP", "init_reim4_from_cplx_precomp", "", "",
     "reim4_from_cplx_simple(m, r, a)", "precomp", 32, ["reim4_from_cplx_ref", "reim4_to_cplx_ref"]),
    ("reim4_to_cplx_simple", "reim4/reim4_fftvec_private.h", "reim4/reim4_fftvec_conv_ref.c", "REIM4_TO_CPLX_PRECOMP", "init_reim4_to_cplx_precomp", "", "",
     "reim4_to_cplx_simple(m, r, a)", "precomp", 32, ["reim4_from_cplx_ref", "reim4_to_cplx_ref"]),
]


# pointer-array caches: (function, header, source, table type, constructor, extra constructor parameters, kernel parameters, call)
POINTER_CACHES = [
    ("reim_fft_simple", "reim/reim_fft_private.h", "reim/reim_fft_ref.c", "REIM_FFT_PRECOMP", "new_reim_fft_precomp", ", uint32_t nbuf", "double* d", "reim_fft_simple(m, r)"),
    ("reim_ifft_simple", "reim/reim_fft_private.h", "reim/reim_fft_ref.c", "REIM_IFFT_PRECOMP", "new_reim_ifft_precomp", ", uint32_t nbuf", "double* d", "reim_ifft_simple(m, r)"),
    ("reim_fftvec_mul_simple", "reim/reim_fft_private.h", "reim/reim_fft_ref.c", "REIM_FFTVEC_MUL_PRECOMP", "new_reim_fftvec_mul_precomp", " ", "double* d, const double* x, const double* y", "reim_fftvec_mul_simple(m, r, a, b)"),
    ("reim_fftvec_addmul_simple", "reim/reim_fft_private.h", "reim/reim_fft_ref.c", "REIM_FFTVEC_ADDMUL_PRECOMP", "new_reim_fftvec_addmul_precomp", " ", "double* d, const double* x, const double* y", "reim_fftvec_addmul_simple(m, r, a, b)"),
    ("cplx_fft_simple", "cplx/cplx_fft_private.h", "cplx/cplx_fft_ref.c", "CPLX_FFT_PRECOMP", "new_cplx_fft_precomp", ", uint32_t nbuf", "void* d", "cplx_fft_simple(m, r)"),
    ("cplx_ifft_simple", "cplx/cplx_fft_private.h", "cplx/cplx_ifft_ref.c", "CPLX_IFFT_PRECOMP", "new_cplx_ifft_precomp", ", uint32_t nbuf", "void* d", "cplx_ifft_simple(m, r)"),
]


def cache_jobs():
    J = []
    common = dict(props=["C15", "C12"], shape="S2", sources=["commons.c", "commons_private.c"], harness="simple_cache.c", entry="h_simple_cache", no_dfcc=True,
                  cbmc_flags=["--no-signed-overflow-check", "--unwind", "3", "--unwinding-assertions"], timeout=600, waive=[r"no body for callee"])
    J.append(Job(name="cache.reim_to_znx64_simple", defines={"WHICH": 0}, expect_statics={"reim_to_znx64_simple": ["p", "prev_log2bound"]},
                 extra_gi=["--remove-function-body", "reim_to_znx64_ref"], functions=["reim_to_znx64_simple"], replay={"driver": "simple_cache", "fn": "reim_to_znx64_simple"},
                 bound_note="loop-free, every argument value, ARBITRARY cache state satisfying the representation invariant (one slot keyed by m, divisor, log2bound); kernel bodies removed", **common))
    for fn, hdr, src, typ, init, ix0, ix, call, var, nslot, bodies in ARRAY_CACHES:
        d = {"WHICH": 1, "HDR": '"%s"' % hdr, "SRCFILE": '"%s"' % src, "T_": typ, "INIT_": init, "INITX0": ix0 or " ", "INITX": ix or " ", "SIMPLE_CALL": call,
             "ALIAS": '"%s::1::%s"' % (fn, var), "NSLOT": nslot}
        J.append(Job(name="cache." + fn, defines=d, expect_statics={fn: [var]}, extra_gi=[x for b in bodies for x in ("--remove-function-body", b)], functions=[fn], replay={"driver": "simple_cache", "fn": fn},
                     bound_note="loop-free, every m = 2^j (j < %d), ARBITRARY contents of the slot of the call and of one other ghost slot satisfying the invariant "
                                "'empty or equal to what the real %s builds for 2^slot'; kernel bodies removed" % (nslot, init), **common))
    for fn, hdr, src, typ, ctor, newp, kp, call in POINTER_CACHES:
        d = {"WHICH": 2, "HDR": '"%s"' % hdr, "SRCFILE": '"%s"' % src, "T_": typ, "NEWPARAMS": newp, "KPARAMS": kp, "SIMPLE_CALL": call,
             "ALIAS": '"%s::1::p"' % fn, "NSLOT": 31}
        J.append(Job(name="cache." + fn, defines=d, expect_statics={fn: ["p"]}, extra_gi=["--replace-calls", "%s:verif_new" % ctor] + [x for b in {"reim/reim_fft_ref.c": ["reim_fft_ref"], "cplx/cplx_fft_ref.c": ["cplx_fft_ref"], "cplx/cplx_ifft_ref.c": ["cplx_ifft_ref"]}[src] for x in ("--remove-function-body", b)], functions=[fn], replay={"driver": "simple_cache", "fn": fn},
                     bound_note="loop-free, every m = 2^j (j < 31), ARBITRARY contents of the slot of the call and of one other ghost slot satisfying the invariant "
                                "'empty or a table of dimension 2^slot'; constructor %s replaced by its assumed contract (fresh table for dimension m)" % ctor, **common))
    return J


def jobs(seed=0):
    return cache_jobs() + [Job(name="static.inventory", props=["C12", "C15", "C07"], shape="S7", sources=[], harness="", entry="", kind="native",
                native_cmd=["python3", "tools/static_inventory.py"], functions=[], timeout=900,
                bound_note="goto symbol tables + call graph of /repo's current sources; function pointers through module->func resolved "
                           "to the targets module_api.c stores, other indirect calls to every type-compatible function"),
                            Job(name="static.module_wf", props=["C18", "C12", "C11", "C15"], shape="S5", sources=[], harness="", entry="", kind="native",
                                native_cmd=["python3", "tools/module_wf_check.py"], functions=["new_module_info"], timeout=900,
                                bound_note="closed-term evaluation (not a proof): wf_module, the precondition of every wrapper contract, evaluated on the "
                                           "objects the real new_module_info returns for N = 2..65536 and both module types"),
                            Job(name="static.alignment", props=["C15", "C11", "C07"], shape="S7", sources=[], harness="", entry="", kind="native",
                                native_cmd=["python3", "tools/align_inventory.py"], functions=[], timeout=120,
                                bound_note="source inventory (not a proof): aligned-access intrinsics only as loads of precomputed twiddle tables, no "
                                           "computation on a pointer's alignment, no aligned vector moves in the .s kernels")]
