# C12 / C15: supporting static facts (S7) -- inventory of static-lifetime state, entry-point reachability, cache keys
from .core import Job


def jobs(seed=0):
    return [Job(name="static.inventory", props=["C12", "C15", "C07"], shape="S7", sources=[], harness="", entry="", kind="native",
                native_cmd=["python3", "tools/static_inventory.py"], functions=[], timeout=900,
                bound_note="goto symbol tables + call graph of /repo's current sources; function pointers through module->func resolved "
                           "to the targets module_api.c stores, other indirect calls to every type-compatible function")]
