# Core of the contract-verification runner: one Job = one goto-cc / goto-instrument(dfcc) / cbmc run
# on the real sources of /repo.  See DESIGN.md sections 1, 3, 4, 7.
import json, os, re, shutil, subprocess, sys, time, hashlib, signal
from dataclasses import dataclass, field
from typing import Optional

VERIF = os.path.dirname(os.path.dirname(os.path.abspath(__file__)))
REPO = os.environ.get("VERIF_REPO", "/repo")
SRC = os.path.join(REPO, "spqlios")
# one scratch directory per check invocation (concurrent invocations must not share goto binaries); removed at exit
BUILD = os.path.join(VERIF, "build", "run%d" % os.getpid())
GUARD = "SPQLIOS_VERIF"

MEM_KB = int(os.environ.get("VERIF_MEM_KB", str(10 * 1024 * 1024)))  # ulimit -v per solver process


@dataclass
class Job:
    name: str                      # unique id of the run
    props: list                    # properties this run serves
    shape: str                     # S1 S2 S3 S4 (DESIGN.md section 3)
    sources: list                  # files relative to /repo/spqlios
    harness: str                   # file relative to /verif/contracts
    entry: str                     # harness function (dfcc entry)
    enforce: list = field(default_factory=list)   # [(function, contract_symbol)]
    replace: list = field(default_factory=list)   # [(function, contract_symbol)]
    loops: dict = field(default_factory=dict)     # function -> [ {id, assigns, invariants, decreases} ]
    defines: dict = field(default_factory=dict)   # -D for the harness AND the repo sources
    cbmc_flags: list = field(default_factory=list)
    unwind: Optional[int] = None                  # set => bounded (S3 limb loops or S4)
    unwindset: list = field(default_factory=list)
    solver: str = "minisat"                       # minisat | kissat | race
    timeout: int = 900
    avx: bool = False                             # compile with shim immintrin.h and -mavx2 -mfma
    strict_shim: bool = False
    export_static: bool = False                   # goto-cc --export-file-local-symbols
    functions: list = field(default_factory=list) # repo functions under contract in this run (evidence)
    replay: Optional[dict] = None                 # {driver: name, ...} native replay description
    bound_note: str = ""                          # human text of the bound for S3/S4
    expect_canary: bool = True
    waive: list = field(default_factory=list)     # regexes of obligation descriptions waived by name (4.2)
    nondet_static: bool = False
    tier: str = "quick"                           # quick jobs also run in thorough
    restrict_fp: list = field(default_factory=list)  # --restrict-function-pointer args
    extra_gi: list = field(default_factory=list)  # extra goto-instrument flags
    expect_statics: dict = field(default_factory=dict)  # {function: [names]}: the function's non-const statics must be exactly these (else extraction break)
    pre_unwindset: list = field(default_factory=list)  # loops fully unwound (with unwinding assertions) BEFORE contract instrumentation, "fn.N:k"
    guard: bool = True                            # compile the repository sources with -DSPQLIOS_VERIF (ghost hooks on)
    no_dfcc: bool = False                         # plain harness proof (no contracts) e.g. lemma-style S2
    kind: str = "cbmc"                            # cbmc | native (S5/S7 tools)
    native_cmd: Optional[list] = None


class Undecided(Exception):
    pass


def run(cmd, timeout=None, cwd=None, mem_kb=None, stdout=None):
    def pre():
        os.setsid()
        if mem_kb:
            import resource
            resource.setrlimit(resource.RLIMIT_AS, (mem_kb * 1024, mem_kb * 1024))
    p = subprocess.Popen(cmd, cwd=cwd, stdout=stdout or subprocess.PIPE, stderr=subprocess.PIPE,
                         preexec_fn=pre, text=True)
    try:
        out, err = p.communicate(timeout=timeout)
        return p.returncode, out, err
    except subprocess.TimeoutExpired:
        try:
            os.killpg(p.pid, signal.SIGKILL)
        except Exception:
            pass
        p.communicate()
        return -9, "", "TIMEOUT"


# ------------------------------------------------------------------------------------------------
# loop map: scoped symbol names for loop contracts, recomputed from the goto binary on every run

_ident_re = re.compile(r"[A-Za-z_][A-Za-z_0-9$]*(?:::[A-Za-z_0-9$]+)+")


def function_listing(gb, fn, workdir):
    rc, out, err = run(["goto-instrument", "--show-goto-functions", gb], timeout=120)
    if rc != 0:
        raise Undecided("show-goto-functions failed: " + err[-300:])
    lines = out.splitlines()
    start = None
    for i, l in enumerate(lines):
        if l.startswith(fn + " /*"):
            start = i
            break
    if start is None:
        raise Undecided("extraction break: function %s not found in goto binary" % fn)
    body = []
    for l in lines[start + 1:]:
        body.append(l)
        if l.strip() == "END_FUNCTION":
            break
    return body


def loop_table(body, fn):
    """returns list of loops in CBMC numbering order: each {id, head_idx, back_idx, line, symbols}"""
    # instructions: non-comment lines.  label "  N: ..." ; backward goto = GOTO n where label n defined earlier
    instrs = []
    cur_line = None
    for l in body:
        s = l.strip()
        if s.startswith("//"):
            m = re.search(r" line (\d+)", s)
            cur_line = int(m.group(1)) if m else None
            continue
        if not s:
            continue
        m = re.match(r"^(\d+):\s*(.*)$", s)
        label = None
        if m:
            label = int(m.group(1))
            s = m.group(2)
        instrs.append({"label": label, "text": s, "line": cur_line})
    label_pos = {}
    loops = []
    for idx, ins in enumerate(instrs):
        if ins["label"] is not None:
            label_pos[ins["label"]] = idx
        m = re.search(r"GOTO (\d+)$", ins["text"])
        if m:
            tgt = int(m.group(1))
            if tgt in label_pos and label_pos[tgt] <= idx:
                loops.append({"head": label_pos[tgt], "back": idx, "line": ins["line"]})
    # CBMC numbers loops by position of the backward goto
    loops.sort(key=lambda L: L["back"])
    for n, L in enumerate(loops):
        L["id"] = n
        syms = set()
        for ins in instrs[L["head"]:L["back"] + 1]:
            for m in _ident_re.finditer(ins["text"]):
                syms.add(m.group(0))
        L["symbols"] = syms
    allsyms = set()
    for ins in instrs:
        for m in _ident_re.finditer(ins["text"]):
            allsyms.add(m.group(0))
    return loops, allsyms


_word_re = re.compile(r"\b[A-Za-z_][A-Za-z_0-9]*\b")
_KEYWORDS = {"const", "ul", "long", "unsigned", "int", "char", "short", "double", "float", "signed", "void", "sizeof",
             "__CPROVER_loop_entry", "__CPROVER_object_upto", "__CPROVER_object_whole", "__CPROVER_object_from",
             "__CPROVER_same_object", "__CPROVER_POINTER_OBJECT", "__CPROVER_bitvector", "__int128",
             "__CPROVER_typed_target", "__CPROVER_r_ok", "__CPROVER_w_ok", "__CPROVER_rw_ok", "NULL",
             "__CPROVER_forall", "__CPROVER_exists", "_Bool", "__CPROVER_old", "__CPROVER_pointer_in_range_dfcc"}


def resolve_symbols(fn, loop, allsyms, texts, globals_):
    """map every identifier used in the loop-contract text to a scoped symbol"""
    names = set()
    for t in texts:
        for m in _word_re.finditer(t or ""):
            w = m.group(0)
            if w in _KEYWORDS or w[0].isdigit():
                continue
            names.add(w)
    pairs = []
    fnsyms = [s for s in allsyms if s.startswith(fn + "::")]
    for w in sorted(names):
        if w in globals_:
            pairs.append((w, w))
            continue
        if w.startswith("P__"):
            # explicit reference to the function's PARAMETER of that name (a loop-local declaration shadows it in the body)
            if fn + "::" + w[3:] not in allsyms:
                raise Undecided("extraction break: %s has no parameter '%s'" % (fn, w[3:]))
            pairs.append((w, fn + "::" + w[3:]))
            continue
        cands = [s for s in fnsyms if s.split("::")[-1] == w]
        inloop = [s for s in cands if s in loop["symbols"]]
        pick = None
        if len(inloop) == 1:
            pick = inloop[0]
        elif len(inloop) > 1:
            # several declarations with this name are touched by the loop: take the innermost common scope
            inloop.sort(key=lambda s: len(s))
            pick = inloop[0]
        elif len(cands) == 1:
            pick = cands[0]
        elif fn + "::" + w in cands:
            pick = fn + "::" + w
        if pick is None:
            raise Undecided("extraction break: cannot resolve '%s' in loop %d of %s (candidates %s)"
                            % (w, loop["id"], fn, cands))
        pairs.append((w, pick))
    return ";".join("%s,%s" % p for p in pairs)


def make_loop_json(job, gb, workdir, globals_):
    fns = []
    for fn, specs in job.loops.items():
        body = function_listing(gb, fn, workdir)
        loops, allsyms = loop_table(body, fn)
        want = specs.get("count") if isinstance(specs, dict) else None
        lst = specs["loops"] if isinstance(specs, dict) else specs
        if want is not None and want != len(loops):
            raise Undecided("extraction break: %s has %d loops, contract file expects %d" % (fn, len(loops), want))
        entries = []
        for sp in lst:
            lid = sp["id"]
            if lid >= len(loops):
                raise Undecided("extraction break: %s has no loop %d" % (fn, lid))
            L = loops[lid]
            e = {"loop_id": str(lid)}
            texts = []
            for k in ("assigns", "invariants", "decreases"):
                if sp.get(k):
                    e[k] = sp[k]
                    texts.append(sp[k])
            e["symbol_map"] = resolve_symbols(fn, L, allsyms, texts, globals_)
            entries.append(e)
        fns.append({fn: entries})
    srcs = [os.path.join(SRC, s) for s in job.sources]
    return {"sources": srcs, "functions": fns, "output": "stdout"}


# ------------------------------------------------------------------------------------------------

def harness_globals(path):
    """names of file-scope ghost variables of a harness file (lines 'GHOST type name;')"""
    g = set()
    seen = set()

    def scan(p):
        if p in seen or not os.path.exists(p):
            return
        seen.add(p)
        for l in open(p):
            m = re.match(r"\s*GHOST\s+.*?\b([A-Za-z_][A-Za-z_0-9]*)\s*(\[[^\]]*\])?\s*;", l)
            if m:
                g.add(m.group(1))
            m = re.match(r'\s*#include\s+"([^"]+)"', l)
            if m:
                scan(os.path.join(os.path.dirname(p), m.group(1)))
    scan(path)
    return g


def tags_of(path):
    """line -> (name, [props]) from trailing /*@name:props*/ comments"""
    t = {}
    if not os.path.exists(path):
        return t
    for n, l in enumerate(open(path), 1):
        m = re.search(r"/\*@\s*([A-Za-z0-9_\-\.]+)\s*(?::\s*([A-Z0-9, ]+))?\s*\*/", l)
        if m:
            props = [p.strip() for p in (m.group(2) or "").split(",") if p.strip()]
            t[n] = (m.group(1), props)
    return t


def classify(name, desc):
    n = name
    if ".postcondition." in n:
        return "post"
    if ".precondition" in n:
        return "pre"
    if ".assigns." in n or "is assignable" in desc:
        return "frame"
    if "loop_invariant" in n or "loop_decreases" in n or "loop_assigns" in n or "loop_step_unwinding" in n:
        return "loop"
    # obligation texts of the non-dfcc loop-contract instrumentation
    if desc.startswith(("Check loop invariant before entry", "Check that loop invariant is preserved", "Check decreases clause on loop iteration")):
        return "loop"
    if ".unwind." in n or "unwinding assertion" in desc:
        return "unwind"
    if ".pointer" in n or ".bounds." in n or ".array_bounds." in n or "memory-leak" in n or ".alignment." in n:
        return "mem"
    if ".overflow." in n or "undefined-shift" in n or "division-by-zero" in n or ".NaN." in n or ".float" in n or ".enum" in n or ".conversion" in n:
        return "ub"
    if ".assertion." in n:
        return "assert"
    if "no-body" in n:
        return "nobody"
    return "other"


@dataclass
class JobResult:
    job: Job
    status: str = "undecided"      # ok | fail | undecided
    reason: str = ""
    obligations: list = field(default_factory=list)   # dicts name, desc, status, cls, line, file, tag, props
    wall: float = 0.0
    solver: str = ""
    cmd: str = ""
    workdir: str = ""
    failed: list = field(default_factory=list)
    waived: list = field(default_factory=list)


import threading
_src_lock = threading.Lock()
_src_locks = {}
SRC_CACHE = os.path.join(BUILD, "_src")


# The only difference between the verified text and /repo's files (everything else is compiled unmodified): inside function
# bodies (indented declarations) the storage class `static` of `static const` objects is dropped.  A const object's storage
# duration is not observable; goto-cc rejects a static initialised from another static (`static const int64_t MASK_LO =
# ~MASK_HI;`, gcc extension) and dfcc havocs function-local statics of the function under contract.  Applied mechanically to
# every source on every run; the number of rewritten declarations per file is reported in the evidence (trusted_base).
_LOCAL_STATIC_CONST = re.compile(r"^([ \t]+)static const ", re.M)
REWRITE_COUNTS = {}


def reset_source_cache():
    """called once at the start of every check invocation: repository sources are recompiled from /repo's current tree"""
    shutil.rmtree(SRC_CACHE, ignore_errors=True)
    os.makedirs(SRC_CACHE, exist_ok=True)


def compile_source(s, avx, strict, export_static, guard=True):
    """goto-cc -c of one UNMODIFIED repository file; shared by the jobs of one check invocation (the harness-only
    -D defines of a job are not passed to repository sources)"""
    src = os.path.join(SRC, s)
    if not os.path.exists(src):
        raise Undecided("extraction break: source %s missing" % s)
    key = "%s.%d%d%d%s" % (s.replace("/", "__"), int(avx), int(strict), int(export_static), "" if guard else "g0")
    out = os.path.join(SRC_CACHE, key + ".gb")
    with _src_lock:
        lk = _src_locks.setdefault(key, threading.Lock())
    with lk:
        if os.path.exists(out):
            return out
        os.makedirs(SRC_CACHE, exist_ok=True)
        text = open(src).read()
        text2, nrw = _LOCAL_STATIC_CONST.subn(r"\1const ", text)
        if nrw:
            REWRITE_COUNTS[s] = nrw
            # same base name as the original (goto-cc mangles file-local symbols with the file name)
            os.makedirs(os.path.join(SRC_CACHE, key + ".d"), exist_ok=True)
            src = os.path.join(SRC_CACHE, key + ".d", os.path.basename(s))
            open(src, "w").write(text2)
        cmd = ["goto-cc", "-c", src, "-o", out + ".tmp", "-DNDEBUG"] + (["-D" + GUARD] if guard else []) + ["-I" + SRC, "-I" + os.path.dirname(os.path.join(SRC, s))]
        if avx:
            cmd += ["-isystem", os.path.join(VERIF, "shim"), "-mavx2", "-mfma"]
            if strict:
                cmd += ["-DSHIM_STRICT"]
            if strict == 2:
                cmd += ["-DSHIM_GHOST_MUL"]
        if export_static:
            cmd += ["--export-file-local-symbols"]
        rc, o, e = run(cmd, timeout=300)
        if rc != 0:
            raise Undecided("goto-cc failed on %s: %s" % (s, (e or o)[-600:]))
        os.rename(out + ".tmp", out)
        return out


def compile_shim(strict, wide=None):
    """bodies of the x86 builtins CBMC does not model (trusted stubs, /verif/shim/builtins.c)"""
    out = os.path.join(SRC_CACHE, "shim_builtins.%d.%s.gb" % (int(strict), wide or 0))
    with _src_lock:
        lk = _src_locks.setdefault(out, threading.Lock())
    with lk:
        if not os.path.exists(out):
            os.makedirs(SRC_CACHE, exist_ok=True)
            cmd = ["goto-cc", "-c", os.path.join(VERIF, "shim", "builtins.c"), "-o", out + ".tmp"] + (["-DSHIM_STRICT"] if strict else []) + (["-DSHIM_GHOST_MUL"] if strict == 2 else []) + (["-DSHIM_WIDE_BITS=%s" % wide] if wide else [])
            rc, o, e = run(cmd, timeout=120)
            if rc != 0:
                raise Undecided("goto-cc failed on shim: " + (e or o)[-400:])
            os.rename(out + ".tmp", out)
    return out


def compile_job(job, wd):
    os.makedirs(wd, exist_ok=True)
    defs = ["-DNDEBUG", "-D" + GUARD, "-D__CPROVER_VERIF__"]
    for k, v in job.defines.items():
        defs.append("-D%s=%s" % (k, v) if v is not None and v != "" else "-D%s" % k)
    inc = ["-I" + SRC, "-I" + os.path.join(VERIF, "contracts")]
    gbs = [compile_source(s, job.avx or "avx" in s or "fma" in s, job.strict_shim, job.export_static, job.guard) for s in job.sources]
    if job.avx or any(("avx" in s or "fma" in s) for s in job.sources):
        gbs.append(compile_shim(job.strict_shim, job.defines.get("SHIM_WIDE_BITS")))
    gbs.append(os.path.join(VERIF, "shim", "cpu_supports.c"))
    h = os.path.join(VERIF, "contracts", job.harness)
    a = os.path.join(wd, "a.gb")
    cmd = ["goto-cc", "--function", job.entry, h] + gbs + ["-o", a] + defs + inc
    if job.avx:
        cmd += ["-isystem", os.path.join(VERIF, "shim"), "-mavx2", "-mfma"]
        if job.strict_shim:
            cmd += ["-DSHIM_STRICT"]
        if job.strict_shim == 2:
            cmd += ["-DSHIM_GHOST_MUL"]
    rc, o, e = run(cmd, timeout=300)
    if rc != 0:
        raise Undecided("goto-cc link failed: %s" % (e or o)[-800:])
    return a


def instrument_job(job, a, wd):
    b = os.path.join(wd, "b.gb")
    cur = a
    if job.restrict_fp:
        r = os.path.join(wd, "r.gb")
        cmd = ["goto-instrument"]
        for x in job.restrict_fp:
            cmd += ["--restrict-function-pointer", x]
        cmd += [cur, r]
        rc, o, e = run(cmd, timeout=300)
        if rc != 0:
            raise Undecided("restrict-function-pointer failed: " + (e or o)[-600:])
        cur = r
    if job.pre_unwindset:
        # constant-trip-count inner loops are unwound first (unwinding assertions on), so that only the loops that carry a
        # contract remain: dfcc rejects contracts on loops nested in a loop whose body declares the inner loop variable
        r = os.path.join(wd, "u.gb")
        allk = [x.split(":")[1] for x in job.pre_unwindset if x.startswith("*:")]
        us = [x for x in job.pre_unwindset if not x.startswith("*:")]
        cmd = ["goto-instrument"] + (["--unwind", allk[0]] if allk else []) + (["--unwindset", ",".join(us)] if us else []) + ["--unwinding-assertions", cur, r]
        rc, o, e = run(cmd, timeout=300)
        if rc != 0:
            raise Undecided("pre-unwinding failed: " + (e or o)[-600:])
        cur = r
    if job.nondet_static:
        r = os.path.join(wd, "ns.gb")
        rc, o, e = run(["goto-instrument", "--nondet-static", cur, r], timeout=300)
        if rc != 0:
            raise Undecided("nondet-static failed: " + (e or o)[-600:])
        cur = r
    if job.no_dfcc and job.loops:
        # plain harness (posts are assertions of the harness) + loop contracts applied by the non-dfcc instrumentation
        lj = make_loop_json(job, cur, wd, harness_globals(os.path.join(VERIF, "contracts", job.harness)))
        ljp = os.path.join(wd, "loops.json")
        json.dump(lj, open(ljp, "w"), indent=1)
        rc, o, e = run(["goto-instrument", "--loop-contracts-file", ljp, "--apply-loop-contracts"] + job.extra_gi + [cur, b], timeout=600, mem_kb=MEM_KB)
        if rc != 0:
            raise Undecided("goto-instrument --apply-loop-contracts failed: " + ((e or "") + (o or ""))[-900:])
        return b
    if job.no_dfcc:
        if job.extra_gi:
            rc, o, e = run(["goto-instrument"] + job.extra_gi + [cur, b], timeout=300)
            if rc != 0:
                raise Undecided("goto-instrument failed: " + (e or o)[-600:])
            return b
        return cur
    cmd = ["goto-instrument"]
    if job.loops:
        lj = make_loop_json(job, cur, wd, harness_globals(os.path.join(VERIF, "contracts", job.harness)))
        ljp = os.path.join(wd, "loops.json")
        json.dump(lj, open(ljp, "w"), indent=1)
        cmd += ["--loop-contracts-file", ljp]
    cmd += ["--dfcc", job.entry]
    for f, c in job.enforce:
        cmd += ["--enforce-contract", "%s/%s" % (f, c) if c else f]
    for f, c in job.replace:
        cmd += ["--replace-call-with-contract", "%s/%s" % (f, c) if c else f]
    if job.loops:
        cmd += ["--apply-loop-contracts"]
    cmd += job.extra_gi
    cmd += [cur, b]
    rc, o, e = run(cmd, timeout=600, mem_kb=MEM_KB)
    if rc != 0:
        m = re.search(r"Function to replace '([^']+)' not found", (e or "") + (o or ""))
        if m and any(f == m.group(1) for f, _ in job.replace):
            # the code under proof no longer calls this callee: its contract is simply not needed
            job.replace = [(f, c) for f, c in job.replace if f != m.group(1)]
            return instrument_job(job, a, wd)
        raise Undecided("goto-instrument --dfcc failed: " + ((e or "") + (o or ""))[-900:])
    return b


def cbmc_cmd(job, b, solver, extra=()):
    cmd = ["cbmc", b]   # plain-text UI: --json-ui builds a trace for every failure (the canary!) and is 7x slower
    cmd += job.cbmc_flags
    if job.unwind is not None:
        cmd += ["--unwind", str(job.unwind), "--unwinding-assertions"]
    for u in job.unwindset:
        cmd += ["--unwindset", u]
    if solver == "kissat":
        cmd += ["--external-sat-solver", "kissat"]
    cmd += list(extra)
    return cmd


_res_re = re.compile(r"^\[([^\]]+)\] (?:line (\d+) )?(.*): (SUCCESS|FAILURE|UNKNOWN|ERROR)$")
_hdr_re = re.compile(r"^(\S.*) function (\S+)$")


def parse_results(out):
    """parse cbmc's plain-text result listing"""
    if "** Results:" not in out:
        tail = out[-400:].replace("\n", " | ")
        return None, "no result section: " + tail
    res = []
    cur_file = ""
    msgs = []
    body = out[out.index("** Results:"):]
    for l in body.splitlines():
        m = _res_re.match(l)
        if m:
            res.append({"property": m.group(1), "description": m.group(3), "status": m.group(4),
                        "sourceLocation": {"line": m.group(2) or "0", "file": cur_file}})
            continue
        m = _hdr_re.match(l)
        if m:
            cur_file = m.group(1)
    for l in out.splitlines():
        if "ignoring" in l:
            msgs.append(l.strip())
    return res, "; ".join(msgs[:3])


def solve(job, b, wd):
    """run the back end(s); returns (results, solver, reason)"""
    solvers = ["minisat", "kissat"] if job.solver == "race" else [job.solver]
    procs = []
    for s in solvers:
        cmd = cbmc_cmd(job, b, s)
        outp = os.path.join(wd, "cbmc.%s.txt" % s)

        def pre():
            os.setsid()
            import resource
            resource.setrlimit(resource.RLIMIT_AS, (MEM_KB * 1024, MEM_KB * 1024))
        f = open(outp, "w")
        # cbmc writes the CNF for an external solver to $TMPDIR: keep it inside the job's scratch directory (removed with it)
        p = subprocess.Popen(cmd, stdout=f, stderr=subprocess.STDOUT, preexec_fn=pre, cwd=wd, env=dict(os.environ, TMPDIR=wd))
        procs.append((s, p, outp, f, cmd))
    t0 = time.time()
    winner = None
    reason = ""
    pending = list(procs)
    while pending and time.time() - t0 < job.timeout:
        for item in list(pending):
            s, p, outp, f, cmd = item
            rc = p.poll()
            if rc is None:
                continue
            pending.remove(item)
            f.close()
            res, msg = parse_results(open(outp).read())
            if res is not None and rc in (0, 10):
                bad = [r for r in res if r["status"] not in ("SUCCESS", "FAILURE")]
                real_fail = [r for r in res if r["status"] == "FAILURE" and "VACUITY_CANARY" not in r.get("description", "")
                             and not any(re.search(w, r.get("description", "")) for w in job.waive)]
                # CBMC reports obligations downstream of a failed built-in check as UNKNOWN: with a genuine FAILURE
                # the run is decided (fail); UNKNOWN without any failure is undecided
                if bad and not real_fail:
                    reason = "%s: status %s on %s" % (s, bad[0]["status"], bad[0].get("property"))
                    continue
                if "ignoring" in msg:
                    reason = "%s: %s" % (s, msg)
                    continue
                winner = (res, s, " ".join(cmd))
                break
            else:
                reason = "%s: rc=%s %s" % (s, rc, msg[:300])
        if winner:
            break
        time.sleep(0.05)
    for s, p, outp, f, cmd in procs:
        if p.poll() is None:
            try:
                os.killpg(p.pid, signal.SIGKILL)
            except Exception:
                pass
            p.wait()
        try:
            f.close()
        except Exception:
            pass
    if winner:
        return winner
    if not reason:
        reason = "timeout after %ds (%s)" % (job.timeout, "+".join(solvers))
    raise Undecided(reason)


def check_statics(job, gb):
    """the harness aliases a function's local statics by name: the set of non-const static-lifetime locals must be exactly the expected one"""
    rc, o, e = run(["goto-instrument", "--show-symbol-table", gb], timeout=300)
    found = {}
    for rec in o.split("\n\n"):
        f = dict(re.findall(r"^(\w[\w ]*?)\.*: (.*)$", rec, re.M))
        name, flags, typ = f.get("Symbol", ""), f.get("Flags", ""), f.get("Type", "")
        if "static_lifetime" not in flags or "::" not in name or typ.startswith("const ") or "$link" in name:
            continue
        fn = name.split("::")[0]
        if fn in job.expect_statics:
            found.setdefault(fn, set()).add(name.split("::")[-1])
    for fn, names in job.expect_statics.items():
        if found.get(fn, set()) != set(names):
            raise Undecided("extraction break: function-local statics of %s are %s, the harness aliases %s" % (fn, sorted(found.get(fn, set())), sorted(names)))


_hdr_tags = {}


def run_job(job, keep=False):
    t0 = time.time()
    wd = os.path.join(BUILD, re.sub(r"[^A-Za-z0-9_.\-]", "_", job.name))
    if os.path.exists(wd):
        shutil.rmtree(wd, ignore_errors=True)
    R = JobResult(job=job, workdir=wd)
    try:
        if job.kind == "native":
            return run_native(job, R, t0)
        a = compile_job(job, wd)
        if job.expect_statics:
            check_statics(job, a)
        b = instrument_job(job, a, wd)
        res, solver, cmd = solve(job, b, wd)
        R.solver = solver
        R.cmd = cmd
        hpath = os.path.join(VERIF, "contracts", job.harness)
        tags = tags_of(hpath)
        canary_failed = False
        n_loop = 0
        for r in res:
            name = r.get("property", "?")
            desc = r.get("description", "")
            loc = r.get("sourceLocation", {})
            line = int(loc.get("line", 0) or 0)
            fil = loc.get("file", "")
            cls = classify(name, desc)
            tag = None
            tprops = []
            if fil and os.path.abspath(fil) == os.path.abspath(hpath) and line in tags:
                tag, tprops = tags[line]
            elif fil and os.path.abspath(fil).startswith(os.path.join(VERIF, "contracts") + os.sep):
                # contract written in a header included by the harness file: its tags live in that header
                ht = _hdr_tags.setdefault(os.path.abspath(fil), None) or _hdr_tags.__setitem__(os.path.abspath(fil), tags_of(os.path.abspath(fil))) or _hdr_tags[os.path.abspath(fil)]
                if line in ht:
                    tag, tprops = ht[line]
            ob = {"name": name, "desc": desc, "status": r["status"], "cls": cls, "line": line,
                  "file": fil, "tag": tag, "props": tprops, "job": job.name, "shape": job.shape}
            if "VACUITY_CANARY" in desc:
                if r["status"] == "FAILURE":
                    canary_failed = True
                continue
            if cls == "loop":
                n_loop += 1
            if r["status"] == "FAILURE" and any(re.search(w, desc) or re.search(w, name) for w in job.waive):
                ob["status"] = "WAIVED"
                R.waived.append(ob)
                continue
            if r["status"] not in ("SUCCESS", "FAILURE"):
                continue   # UNKNOWN downstream of a failure (see solve)
            R.obligations.append(ob)
            if r["status"] == "FAILURE":
                R.failed.append(ob)
        nobody = [o for o in R.failed if o["desc"].startswith("undefined function should be unreachable")]
        if nobody:
            # the code under proof calls a function that has no body in this run: everything after the call is unreachable for
            # the verifier, so the run decides nothing (it must not count as a pass, nor as a violation of the property)
            raise Undecided("extraction break: the code under proof calls %s, which has no body and no contract in this run"
                            % ", ".join(sorted(set(o["name"].split(".")[0] for o in nobody))))
        real_fail = [o for o in R.failed if o["cls"] != "unwind"]
        if job.expect_canary and not canary_failed and not real_fail:
            # (a reported FAILURE is a reachable violation whether or not the end of the harness is reachable: only successes
            # can be vacuous; an exceeded unwinding bound alone decides nothing)
            raise Undecided("vacuity: canary assertion did not fail (preconditions unsatisfiable or end unreachable)")
        if not R.obligations:
            raise Undecided("vacuity: zero obligations generated")
        nl = sum(len(v["loops"] if isinstance(v, dict) else v) for v in job.loops.values())
        if nl and n_loop < 2 * nl:
            raise Undecided("loop contracts silently dropped: %d loop obligations for %d loop contracts" % (n_loop, nl))
        R.status = "fail" if R.failed else "ok"
    except Undecided as u:
        R.status = "undecided"
        R.reason = str(u)
    R.wall = time.time() - t0
    if not keep and R.status == "ok":
        shutil.rmtree(wd, ignore_errors=True)
    return R


def run_native(job, R, t0):
    rc, o, e = run(job.native_cmd, timeout=job.timeout, cwd=VERIF)
    R.cmd = " ".join(job.native_cmd)
    R.solver = "native"
    # protocol: lines "OBLIGATION <name> <OK|FAIL> <description>"
    for l in (o or "").splitlines():
        m = re.match(r"OBLIGATION (\S+) (OK|FAIL)\s*(.*)$", l)
        if m:
            ob = {"name": m.group(1), "desc": m.group(3), "status": "SUCCESS" if m.group(2) == "OK" else "FAILURE",
                  "cls": "native", "line": 0, "file": "", "tag": m.group(1), "props": [], "job": job.name,
                  "shape": job.shape}
            R.obligations.append(ob)
            if m.group(2) == "FAIL":
                R.failed.append(ob)
    if rc not in (0, 1) or not R.obligations:
        R.status = "undecided"
        R.reason = "native tool rc=%s %s" % (rc, (e or "")[-300:])
    else:
        R.status = "fail" if R.failed else "ok"
    R.wall = time.time() - t0
    return R
