# C09: rotation / (X^p-1) / automorphism kernels
from .core import Job

SRC = ["coeffs/coeffs_arithmetic.c"]
H = "rot.c"
NOOVF = ["--no-signed-overflow-check"]


def S(t):
    return "(((unsigned long)(%s) - (unsigned long)p) & (2 * nn - 1))" % t


def wneg(x):
    return "(long)(0ul - (unsigned long)(%s))" % x


def rotval(t, arr="in"):
    return "(%s < nn ? %s[%s] : %s)" % (S(t), arr, S(t), wneg("%s[%s - nn]" % (arr, S(t))))


def rot_loops(val, lhs="res[G]"):
    """the four loops of znx_rotate_i64 / znx_mul_xp_minus_one share their structure: j in [0,nma) then [nma,nn)"""
    A = "j, __CPROVER_object_upto(res, nn * 8)"
    # facts about a/nma relate the code's pull offsets to the spec's (t - p) mod 2nn
    rel_lo = "a == (((unsigned long)(0l - p)) & (2 * nn - 1)) && a < nn && nma == nn - a"
    rel_hi = "a + nn == (((unsigned long)(0l - p)) & (2 * nn - 1)) && a < nn && nma == nn - a"
    post = "(G < j ==> %s == %s)" % (lhs, val("G"))
    return [
        {"id": 0, "assigns": A, "decreases": "nma - j", "invariants": "%s && j <= nma && %s" % (rel_lo, post)},
        {"id": 1, "assigns": A, "decreases": "nn - j", "invariants": "%s && nma <= j && j <= nn && %s" % (rel_lo, post)},
        {"id": 2, "assigns": A, "decreases": "nma - j", "invariants": "%s && j <= nma && %s" % (rel_hi, post)},
        {"id": 3, "assigns": A, "decreases": "nn - j", "invariants": "%s && nma <= j && j <= nn && %s" % (rel_hi, post)},
    ]


def jobs(seed=0):
    J = []
    J.append(Job(name="rot.znx_rotate_i64", props=["C09", "C08", "C11", "C18", "C15"], shape="S1", sources=SRC, harness=H,
                 entry="h_znx_rotate_i64", enforce=[("znx_rotate_i64", "znx_rotate__c")],
                 loops={"znx_rotate_i64": {"count": 4, "loops": rot_loops(lambda t: rotval(t))}},
                 cbmc_flags=NOOVF, functions=["znx_rotate_i64"], solver="race", timeout=900,
                 replay={"driver": "rot", "fn": "znx_rotate_i64"}))
    J.append(Job(name="rot.znx_mul_xp_minus_one", props=["C09", "C11", "C18", "C15"], shape="S1", sources=SRC, harness=H,
                 entry="h_znx_mul_xp_minus_one", enforce=[("znx_mul_xp_minus_one", "znx_mul_xp_minus_one__c")],
                 loops={"znx_mul_xp_minus_one": {"count": 4, "loops": rot_loops(
                     lambda t: "(long)((unsigned long)%s - (unsigned long)in[%s])" % (rotval(t), t))}},
                 cbmc_flags=NOOVF, functions=["znx_mul_xp_minus_one"], solver="race", timeout=900,
                 replay={"driver": "rot", "fn": "znx_mul_xp_minus_one"}))
    J += more_jobs(seed)
    J += inplace_jobs(seed)
    return J


def bits(arr, idx):
    return "((const unsigned long*)%s)[%s]" % (arr, idx)


def rrotbits(t):
    return "(%s < nn ? %s : (%s ^ 0x8000000000000000ul))" % (S(t), bits("in", S(t)), bits("in", "%s - nn" % S(t)))


def aut_loops(is_double):
    # GT == (G*p) & (2nn-1) comes from the contract's requires (G, GT, p are not assigned by the loop)
    if is_double:
        val = "%s == (GT < nn ? %s : (%s ^ 0x8000000000000000ul))" % (bits("res", "GT & (nn - 1)"), bits("in", "G"), bits("in", "G"))
    else:
        val = "res[GT & (nn - 1)] == (GT < nn ? in[G] : %s)" % wneg("in[G]")
    inv = "1 <= i && i <= nn && _2mn == 2 * nn - 1 && a == (((i - 1) * (unsigned long)p) & _2mn) && (G < i ==> %s)" % val
    return [{"id": 0, "assigns": "i, a, __CPROVER_object_upto(res, nn * 8)", "decreases": "nn - i", "invariants": inv}]


def more_jobs(seed=0):
    J = []
    J.append(Job(name="rot.rnx_rotate_f64", props=["C09", "C11", "C18"], shape="S1", sources=SRC, harness=H,
                 entry="h_rnx_rotate_f64", enforce=[("rnx_rotate_f64", "rnx_rotate__c")],
                 loops={"rnx_rotate_f64": {"count": 4, "loops": rot_loops(lambda t: rrotbits(t), lhs=bits("res", "G"))}},
                 cbmc_flags=NOOVF, functions=["rnx_rotate_f64"], solver="race", timeout=900,
                 replay={"driver": "rot", "fn": "rnx_rotate_f64"}))
    # rnx_mul_xp_minus_one: S1 with an IEEE subtraction in the invariant timed out (900 s, both back ends) -> S4, every residue
    for nn in (2, 4, 8, 16):
        for pv in list(range(0, 2 * nn)) + [-1, -(2 * nn), 2 * nn, 4 * nn + 1, (1 << 62) + 3, -(1 << 62) - 3]:
            J.append(Job(name="rot.rnx_mul_xp_minus_one.nn%d.p%s" % (nn, str(pv).replace("-", "m")), props=["C09"], shape="S4", sources=SRC,
                         harness="rot_inplace.c", entry="h_rnx_mul_xp_spec", no_dfcc=True, defines={"NN": nn, "PVAL": "(%dLL)" % pv},
                         cbmc_flags=NOOVF + ["--unwind", str(nn + 2), "--unwinding-assertions"], functions=["rnx_mul_xp_minus_one"],
                         timeout=300, bound_note="nn=%d, p=%d (every residue mod 2nn enumerated), all data" % (nn, pv)))
    for nn in (2, 4, 8, 16, 32, 64):
        for fn, c, dbl in (("znx_automorphism_i64", "znx_automorphism__c", False), ("rnx_automorphism_f64", "rnx_automorphism__c", True)):
            J.append(Job(name="rot.%s.nn%d" % (fn, nn), props=["C09", "C11", "C18"] + (["C08", "C15"] if not dbl else []),
                         shape="S1", sources=SRC, harness=H,
                         entry="h_" + fn, enforce=[(fn, c)], defines={"ROT_NN": nn},
                         loops={fn: {"count": 1, "loops": aut_loops(dbl)}},
                         cbmc_flags=NOOVF, functions=[fn], solver="race", timeout=900,
                         tier="quick" if nn <= 32 else "thorough",
                         bound_note="dimension nn=%d (loop contract; all odd p, all data); the general statement needs 'odd p is a unit mod 2^j'" % nn,
                         replay={"driver": "rot", "fn": fn}))
    return J


IP = [("znx_rotate", "h_ip_znx_rotate", False, ["znx_rotate_inplace_i64"]),
      ("znx_automorphism", "h_ip_znx_automorphism", True, ["znx_automorphism_inplace_i64"]),
      ("rnx_rotate", "h_ip_rnx_rotate", False, ["rnx_rotate_inplace_f64"]),
      ("rnx_automorphism", "h_ip_rnx_automorphism", True, ["rnx_automorphism_inplace_f64"])]
# rnx_mul_xp_minus_one_inplace vs rnx_mul_xp_minus_one: equality of two IEEE subtractors on differently indexed reads
# timed out on both SAT back ends even at nn=2 (20 min) -> not covered (DESIGN 5/C09)


def inplace_jobs(seed=0):
    J = []
    for nm, entry, odd, fns in IP:
        for nn in (2, 4, 8):
            J.append(Job(name="rotip.%s.nn%d.psym" % (nm, nn), props=["C09", "C13"], shape="S4", sources=SRC,
                         tier="quick" if nn <= 4 else "thorough",
                         harness="rot_inplace.c", entry=entry, no_dfcc=True, defines={"NN": nn},
                         cbmc_flags=NOOVF + ["--unwind", str(2 * nn + 3), "--unwinding-assertions"], functions=fns,
                         solver="race", timeout=1200,
                         bound_note="nn=%d, every p in (-2^63,2^63)%s, all data" % (nn, " odd" if odd else "")))
        for nn, tier in ((8, "quick"), (16, "quick"), (32, "thorough"), (64, "thorough")):
            res = list(range(1 if odd else 0, 2 * nn, 2 if odd else 1))
            extra = [-1, -(2 * nn) - 3, 2 * nn + 5, (1 << 62) + 1, -(1 << 62) - 1, (1 << 63) - 1, -(1 << 63) + 1]
            for pv in res + extra:
                if odd and pv % 2 == 0:
                    continue
                J.append(Job(name="rotip.%s.nn%d.p%s" % (nm, nn, str(pv).replace("-", "m")), props=["C09", "C13"], shape="S4",
                             sources=SRC, harness="rot_inplace.c", entry=entry, no_dfcc=True,
                             defines={"NN": nn, "PVAL": "(%dLL)" % pv if pv > -(1 << 63) + 1 else "(-9223372036854775807LL)"},
                             cbmc_flags=NOOVF + ["--unwind", str(2 * nn + 3), "--unwinding-assertions"], functions=fns,
                             solver="minisat", timeout=600, tier=tier,
                             bound_note="nn=%d, p=%d (every residue mod 2nn enumerated%s), all data" % (nn, pv, ", odd" if odd else "")))
    return J
