# C14: conversions (plain harnesses on the real functions, full lane domain)
from .core import Job

COMMONS = ["commons_private.c", "commons.c"]


def jobs(seed=0):
    J = []

    def add(name, entry, srcs, variant, m, fns, shape, tier="quick", extra=None, props=None, timeout=900, solver="race", unwind=None):
        d = {"M": m, "VARIANT": variant}
        d.update(extra or {})
        J.append(Job(name=name, props=props or ["C14", "C07", "C15"], shape=shape, sources=srcs, harness="conv.c", entry=entry,
                     no_dfcc=True, defines=d,
                     cbmc_flags=["--unwind", str(unwind or (2 * m + 2)), "--unwinding-assertions", "--no-signed-overflow-check", "--object-bits", "10"],
                     functions=fns, timeout=timeout, solver=solver, tier=tier,
                     bound_note="vector length 2m=%d unwound; every lane value in the stated domain" % (2 * m)))
    add("conv.from_znx64.ref", "h_from_znx64", ["reim/reim_conversions.c"] + COMMONS, 0, 1, ["reim_from_znx64_ref"], "S2")
    add("conv.from_znx64.bnd50_fma", "h_from_znx64", ["reim/reim_conversions_avx.c"], 1, 4, ["reim_from_znx64_bnd50_fma"], "S4")
    add("conv.to_znx64.ref", "h_to_znx64", ["reim/reim_conversions.c"] + COMMONS, 0, 1, ["reim_to_znx64_ref"], "S2")
    add("conv.to_znx64.bnd50_fma", "h_to_znx64", ["reim/reim_conversions_avx.c"], 1, 2, ["reim_to_znx64_avx2_bnd50_fma"], "S4")
    add("conv.to_znx64.bnd63_fma", "h_to_znx64", ["reim/reim_conversions_avx.c"], 2, 2, ["reim_to_znx64_avx2_bnd63_fma"], "S4")
    for lb in (50, 51, 52, 63):
        for lane in (0, 9):
            add("conv.to_znx64.dispatch.lb%d.lane%d" % (lb, lane), "h_to_znx64_dispatch",
                ["reim/reim_conversions.c", "reim/reim_conversions_avx.c", "reim/reim_execute.c"] + COMMONS, 0, 8,
                ["init_reim_to_znx64_precomp", "reim_to_znx64"], "S4", extra={"LOG2BOUND": lb, "GLANE": lane},
                tier="quick" if lane == 0 else "thorough")
    TN = ["reim/reim_to_tnx_ref.c", "reim/reim_to_tnx_avx.c"] + COMMONS
    # quick: boundary / typical log2overhead values; thorough: every log2overhead 0..48 (reference kernel, lane 0; AVX kernel, one
    # lane rotating with log2overhead so that all eight lane positions are visited; all lanes at 0, 29, 48)
    for ovh in range(0, 49):
        for lane in (0, 1):
            if lane == 1 and ovh not in (29, 48):
                continue
            add("conv.to_tnx.ref.ovh%02d.lane%d" % (ovh, lane), "h_to_tnx", TN, 0, 1, ["reim_to_tnx_ref", "init_reim_to_tnx_precomp"], "S2",
                extra={"OVH": ovh, "GLANE": lane}, tier="quick" if (ovh in (0, 13, 28, 29, 40, 48) and lane == 0) or (ovh in (29, 48)) else "thorough")
        for lane in range(8):
            if ovh not in (0, 29, 48) and lane != ovh % 8:
                continue
            add("conv.to_tnx.avx.ovh%02d.lane%d" % (ovh, lane), "h_to_tnx", TN, 1, 4, ["reim_to_tnx_avx", "init_reim_to_tnx_precomp"], "S4",
                extra={"OVH": ovh, "GLANE": lane}, tier="quick" if (ovh in (0, 29, 48) and lane in (0, 3, 4, 7)) else "thorough")
    add("conv.cplx_from_znx32.ref", "h_cplx_from_znx32", ["cplx/cplx_conversions.c"] + COMMONS, 0, 2, ["cplx_from_znx32_ref"], "S2")
    add("conv.cplx_from_znx32.avx2_fma", "h_cplx_from_znx32", ["cplx/cplx_conversions_avx2_fma.c"], 1, 8, ["cplx_from_znx32_avx2_fma"], "S4")
    add("conv.cplx_from_tnx32.ref", "h_cplx_from_tnx32", ["cplx/cplx_conversions.c"] + COMMONS, 0, 2, ["cplx_from_tnx32_ref"], "S2")
    add("conv.cplx_from_tnx32.avx2_fma", "h_cplx_from_tnx32", ["cplx/cplx_conversions_avx2_fma.c"], 1, 8, ["cplx_from_tnx32_avx2_fma"], "S4")
    add("conv.cplx_to_tnx32.ref", "h_cplx_to_tnx32", ["cplx/cplx_conversions.c"] + COMMONS, 0, 2, ["cplx_to_tnx32_ref"], "S2")
    add("conv.cplx_to_tnx32.avx2_fma", "h_cplx_to_tnx32", ["cplx/cplx_conversions_avx2_fma.c"], 1, 8, ["cplx_to_tnx32_avx2_fma"], "S4")
    return J
