# Registry: which jobs decide which property, plus the per-property texts that go into the evidence.
import importlib

MODULES = ["jobs_coeffs", "jobs_vec", "jobs_rot", "jobs_conv", "jobs_q120", "jobs_reim4", "jobs_static"]

CLAIMED = ["C04", "C05", "C07", "C08", "C09", "C10", "C12", "C13", "C14", "C15", "C17", "C11", "C18"]
LEVEL = {"C12": "other"}
EXPLAIN = {
    "C12": "Contracts cannot quantify over schedules. Decided here: the PREMISES of the standard non-interference argument. (1) proof: in the "
           "contract runs tagged C12 the MODULE and all tables are is_fresh objects outside every assigns clause, so no module-level function "
           "writes them; (2) static facts (tools/static_inventory.py, goto symbol table + call graph of the current sources): the only non-const "
           "objects with static storage are the documented *_simple caches, and no module-level / table-based entry point reaches a function that "
           "touches one. The step from these premises to 'no data race, same result as when run alone' is the usual paper argument and is NOT "
           "mechanised; no thread interleaving is explored.",
    "C15": "Decided here: (1) proof, cache.* runs: for 16 of the 20 *_simple convenience functions the table cache (function-local statics of the "
           "REAL function, reached by asm-label aliases with the repository source included in the harness translation unit) is proved to keep the "
           "representation invariant 'every slot is empty or holds exactly what the real init function builds for the slot's key', and from ANY cache "
           "state satisfying it one call with any arguments hands the kernel a table equal field for field to a freshly built one -- an induction over "
           "call histories, no sequence is enumerated; (2) proof (runs of C05/C08/C09/C14/C17 tagged C15): outputs are determined by the inputs alone -- "
           "output and scratch objects start nondeterministic and unaligned and the post fixes every output cell as a function of the inputs; (3) static "
           "facts: inventory of static-lifetime state (same tool as C12): the *_simple caches are the only mutable statics and no module-level entry "
           "point reaches one. Not decided: bit-identical repeatability of the float FFT/NTT pipelines, cplx_to_tnx32_simple (its slot type is local to "
           "the function and cannot be aliased; cache-key table only), the three reim_*32_simple functions whose kernels are NOT_IMPLEMENTED, alignment "
           "effects inside assembly kernels.",
}

_cache = None


def all_jobs(seed=0):
    J = []
    for m in MODULES:
        mod = importlib.import_module("vlib." + m)
        try:
            J += mod.jobs(seed)
        except TypeError:
            J += mod.jobs()
    names = set()
    for j in J:
        assert j.name not in names, "duplicate job " + j.name
        names.add(j.name)
    return J


def jobs_for(prop, tier, seed):
    J = [j for j in all_jobs(seed) if prop in j.props]
    if tier == "quick":
        J = [j for j in J if j.tier == "quick"]
    else:
        # tier "manual": kept runnable by name (--job) but in no registered tier, because it is not known to finish on the unchanged tree
        J = [j for j in J if j.tier != "manual"]
    return J


COMMON_TRUST = [
    "CBMC 6.11 (goto-cc front end, dfcc contract instrumentation, SAT back ends minisat/kissat) is sound",
    "gcc -O2 code generation and the CPU implement the C semantics CBMC assumes (LP64, two's complement)",
    "libc memcpy/memset/malloc/free are CBMC's library models",
]


def trusted_base(prop, results, waived):
    t = list(COMMON_TRUST)
    if any(j.job.avx for j in results):
        t.append("AVX2/FMA intrinsics are the lane-wise C models of /verif/shim/immintrin.h (Intel SDM semantics), "
                 "cross-checked natively against the hardware intrinsics by tools/shimtest at setup")
    if any("--no-signed-overflow-check" in j.job.cbmc_flags for j in results):
        t.append("signed + - in element loops wrap (two's complement; the library is built and tested that way; "
                 "posts are stated in exact wide arithmetic so a wrap that changes a result still fails)")
    if any(getattr(j.job, "strict_shim", 0) == 2 for j in results):
        t.append("q120.avx2.* runs: the ghost sums, call counters and recorded operands live in the MODEL of _mm256_mul_epu32 "
                 "(shim/builtins.c, SHIM_GHOST_MUL): 'the product the model returns is lo32(a)*lo32(b)' is the Intel SDM definition of vpmuludq, "
                 "cross-checked against the hardware at setup; the accumulators are tied to those ghost sums by the loop invariant")
    if waived:
        t.append("waived by name (gcc-defined behaviour the library relies on): " + "; ".join(sorted(set(w.split(': ')[1].split(' (')[0] for w in waived))))
    for r in results:
        for f, c in r.job.replace:
            pass
    return t


def assumptions(prop):
    extra = []
    if prop in ("C15", "C12"):
        extra = ["cache.* runs: the kernels behind ->function are not executed (bodies removed; what a kernel computes from a given table is C14/C17's subject)",
                 "cache.* pointer-array caches: the constructors new_*_precomp are replaced by an assumed contract (fresh table object for dimension m, deterministic in m)",
                 "cache.* runs: the CPU feature bits are fixed per process (one nondeterministic bit per feature for the whole run)"]
    if prop in ("C04", "C10", "C07"):
        extra += ["q120.avx2.* / q120.bbc.*x2*: one run per (tracked row, lane); in a lane's run the overflow obligations of the other three lanes are waived by name "
                  "and are obligations of the sibling runs; congruence of the exact sums modulo each prime is the z3 lemma set (lemmas/q120_lemmas.py) plus the table check (S5)",
                  "q120.avx2_eq_ref.* are bounded stand-ins (S4): ell concrete, every operand value"]
    return extra + ["ghost index G / (G_limb,G_coef) nondeterministic => statement holds for every index (no quantifier used)",
            "S3 obligations are bounded in the number of limbs (box stated per job) and unbounded in N and data",
            "S4 obligations are bounded stand-ins and are never counted in discharged"]
