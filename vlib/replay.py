# Native replay of a failed obligation against the real code (DESIGN 7.2).
import json, os, re, subprocess, sys, time, glob, shlex
from . import core
from .core import VERIF, run

REPLAYS = os.path.join(VERIF, "replays")

LIB_SRCS = """commons.c commons_private.c coeffs/coeffs_arithmetic.c arithmetic/vec_znx.c arithmetic/vec_znx_dft.c
arithmetic/vector_matrix_product.c cplx/cplx_common.c cplx/cplx_conversions.c cplx/cplx_fft_asserts.c cplx/cplx_fft_ref.c
cplx/cplx_fftvec_ref.c cplx/cplx_ifft_ref.c reim4/reim4_arithmetic_ref.c reim4/reim4_fftvec_addmul_ref.c
reim4/reim4_fftvec_conv_ref.c reim/reim_conversions.c reim/reim_fft_ifft.c reim/reim_fft_ref.c reim/reim_fftvec_addmul_ref.c
reim/reim_ifft_ref.c reim/reim_to_tnx_ref.c q120/q120_ntt.c q120/q120_arithmetic_ref.c q120/q120_arithmetic_simple.c
arithmetic/scalar_vector_product.c arithmetic/vec_znx_big.c arithmetic/znx_small.c arithmetic/module_api.c reim/reim_execute.c
cplx/cplx_execute.c reim4/reim4_execute.c
arithmetic/vector_matrix_product_avx.c cplx/cplx_conversions_avx2_fma.c cplx/cplx_fft_avx2_fma.c cplx/cplx_fft_sse.c
cplx/cplx_fftvec_avx2_fma.c cplx/cplx_ifft_avx2_fma.c reim4/reim4_arithmetic_avx2.c reim4/reim4_fftvec_conv_fma.c
reim4/reim4_fftvec_addmul_fma.c reim/reim_conversions_avx.c reim/reim_fft4_avx_fma.c reim/reim_fft8_avx_fma.c
reim/reim_ifft4_avx_fma.c reim/reim_ifft8_avx_fma.c reim/reim_fft_avx2.c reim/reim_ifft_avx2.c reim/reim_to_tnx_avx.c
reim/reim_fftvec_addmul_fma.c cplx/cplx_fft16_avx_fma.s cplx/cplx_ifft16_avx_fma.s reim/reim_fft16_avx_fma.s
reim/reim_ifft16_avx_fma.s cplx/cplx_fft_avx512.c arithmetic/vec_znx_avx.c coeffs/coeffs_arithmetic_avx.c
arithmetic/vec_znx_dft_avx2.c q120/q120_arithmetic_avx2.c q120/q120_ntt_avx2.c""".split()


def build_native_lib(outdir, asan=True):
    """compile the real library from /repo's working tree (gcc, same flags family as CMake, + ASan)"""
    os.makedirs(outdir, exist_ok=True)
    objs = []
    procs = []
    for s in LIB_SRCS:
        src = os.path.join(core.SRC, s)
        if not os.path.exists(src):
            continue
        o = os.path.join(outdir, s.replace("/", "__") + ".o")
        flags = ["-O1", "-g", "-fwrapv", "-DNDEBUG", "-fPIC", "-I" + core.SRC, "-mfma", "-mavx", "-mavx2", "-mbmi2"]
        if "avx512" in s:
            flags += ["-mavx512f", "-mavx512vl", "-mavx512dq"]
        if asan and not s.endswith(".s"):
            flags += ["-fsanitize=address", "-fno-omit-frame-pointer"]
        procs.append((subprocess.Popen(["gcc", "-c", src, "-o", o] + flags, stderr=subprocess.PIPE, text=True), o, s))
        objs.append(o)
    errs = []
    for p, o, s in procs:
        _, e = p.communicate()
        if p.returncode != 0:
            errs.append("%s: %s" % (s, e[-400:]))
    return objs, errs


def extract_trace(R, ob):
    """re-run cbmc for one property with --trace and pull out scalars, old() snapshots and pointer identities"""
    b = os.path.join(R.workdir, "b.gb")
    if not os.path.exists(b):
        return {}, "no goto binary kept"
    cmd = core.cbmc_cmd(R.job, b, "minisat" if R.solver not in ("kissat",) else "kissat",
                        extra=["--json-ui", "--trace", "--property", ob["name"]])
    rc, out, err = run(cmd, timeout=min(R.job.timeout, 600), mem_kb=core.MEM_KB)
    vals = {}
    olds = []
    try:
        d = json.loads(out)
    except Exception:
        return {}, "trace run failed: rc=%s" % rc
    raw = ""
    for x in d:
        if "result" in x:
            for r in x["result"]:
                if r.get("property") == ob["name"] and r["status"] == "FAILURE":
                    for s in r.get("trace", []):
                        if s.get("stepType") != "assignment":
                            continue
                        lhs = s.get("lhs", "")
                        v = s.get("value", {})
                        data = v.get("data")
                        if data is None:
                            data = v.get("name")
                        fn = s.get("sourceLocation", {}).get("function")
                        if lhs.startswith("__") or data is None:
                            continue
                        if re.match(r"^tmp_cc(\$\d+)?$", lhs):
                            olds.append(data)
                            continue
                        if re.match(r"^[A-Za-z_][A-Za-z_0-9]*$", lhs) and not (fn or "").startswith("__CPROVER"):
                            vals[lhs] = data   # last assignment wins (locals of a loop-step counterexample)
    clean = {}
    for k, v in vals.items():
        v = str(v)
        m = re.match(r"^(-?\d+)(u|l|ul|ull|ll)?$", v)
        if m:
            clean[k] = m.group(1)
        elif v.startswith("dynamic_object"):
            clean[k] = "obj" + re.sub(r"\D", "", v.split("+")[0])
        elif "NULL" in v:
            clean[k] = "null"
        elif re.match(r"^-?[0-9.]+(e[-+]?\d+)?f?$", v) or v in ("TRUE", "FALSE", "true", "false"):
            clean[k] = v
    for i, o in enumerate(olds):
        m = re.match(r"^(-?\d+)", str(o))
        if m:
            clean["old%d" % i] = m.group(1)
        else:
            clean["old%d" % i] = str(o)
    return clean, ""


def make_replay(prop, R, obs):
    """returns (path, reproduced)"""
    os.makedirs(os.path.join(REPLAYS, prop), exist_ok=True)
    ob = obs[0]
    tag = ob["tag"] or ob["cls"]
    path = os.path.join(REPLAYS, prop, re.sub(r"[^A-Za-z0-9_.\-]", "_", "%s__%s" % (R.job.name, tag)) + ".json")
    rec = {"property": prop, "job": R.job.name, "shape": R.job.shape,
           "failed_obligations": [{"name": o["name"], "tag": o["tag"], "description": o["desc"],
                                   "file": o["file"], "line": o["line"], "class": o["cls"]} for o in obs],
           "verifier_cmd": R.cmd, "backend": R.solver, "defines": R.job.defines,
           "enforce": R.job.enforce, "replace": R.job.replace}
    vals, why = ({}, "native tool output") if R.job.kind == "native" else extract_trace(R, ob)
    rec["counterexample"] = vals
    if why:
        rec["counterexample_note"] = why
    found = False
    if R.job.replay:
        spec = dict(R.job.replay)
        args = dict(vals)
        for k, v in R.job.defines.items():
            args.setdefault(k, str(v))
        for k, v in spec.items():
            if k != "driver":
                args[k] = str(v)
        args["tag"] = tag
        args["cls"] = ob["cls"]
        rec["driver"] = spec["driver"]
        rec["driver_args"] = args
        out, found = run_driver(spec["driver"], args)
        rec["native_output"] = out[-4000:]
    elif R.job.kind != "native" and R.job.no_dfcc and R.job.harness:
        out, found = run_native_harness(R.job)
        rec["driver"] = "native_harness (the harness file compiled natively against the real library)"
        rec["native_output"] = out[-4000:]
    rec["reproduced"] = found
    if not found:
        rec["note"] = "no-failing-input-found: the obligation below failed in the verifier; native replay did not reproduce"
    json.dump(rec, open(path, "w"), indent=1)
    return path, found


_libcache = {}


def run_driver(driver, args):
    dsrc = os.path.join(VERIF, "replay", "drivers", driver + ".c")
    if not os.path.exists(dsrc):
        return "driver %s missing" % driver, False
    bdir = os.path.join(core.BUILD, "native_replay")
    if "objs" not in _libcache:
        objs, errs = build_native_lib(bdir)
        _libcache["objs"] = objs
        _libcache["errs"] = errs
    objs = [o for o in _libcache["objs"] if os.path.exists(o)]
    exe = os.path.join(bdir, "drv_" + driver)
    rc, o, e = run(["gcc", "-O1", "-g", "-fwrapv", "-fsanitize=address", "-I" + core.SRC,
                    "-I" + os.path.join(VERIF, "contracts"), "-I" + os.path.join(VERIF, "replay", "drivers"),
                    dsrc, "-o", exe] + objs + ["-lm"], timeout=300)
    if rc != 0:
        return "driver build failed: " + (e or "")[-1500:], False
    argv = [exe] + ["%s=%s" % (k, v) for k, v in sorted(args.items())]
    os.environ["ASAN_OPTIONS"] = "detect_leaks=0"
    rc, o, e = run(argv, timeout=300)
    text = "$ " + " ".join(shlex.quote(x) for x in argv) + "\n" + (o or "") + (e or "")[-3000:]
    asan = "ERROR: AddressSanitizer" in (e or "")
    found = ("REPRODUCED: " in (o or "")) or asan or rc not in (0, 1)
    if "NOT-REPRODUCED" in (o or "") and not asan:
        found = False
    return text, found


def run_native_harness(job):
    bdir = os.path.join(core.BUILD, "native_replay")
    if "objs" not in _libcache:
        objs, errs = build_native_lib(bdir)
        _libcache["objs"] = objs
        _libcache["errs"] = errs
    objs = [o for o in _libcache["objs"] if os.path.exists(o)]
    exe = os.path.join(bdir, "nh_" + re.sub(r"\W", "_", job.name))
    defs = ["-D%s=%s" % (k, v) for k, v in job.defines.items()]
    cmd = ["gcc", "-O1", "-g", "-fwrapv", "-fsanitize=address", "-mavx2", "-mfma", "-w", "-include",
           os.path.join(VERIF, "replay", "drivers", "native_harness.h"), "-DENTRY=" + job.entry, "-DNDEBUG"] + defs + \
          ["-I" + core.SRC, "-I" + os.path.join(VERIF, "contracts"), os.path.join(VERIF, "contracts", job.harness), "-o", exe] + objs + ["-lm"]
    rc, o, e = run(cmd, timeout=300)
    if rc != 0:
        return "native harness build failed: " + (e or "")[-1500:], False
    os.environ["ASAN_OPTIONS"] = "detect_leaks=0"
    rc, o, e = run([exe, "300000"], timeout=300)
    text = "$ " + " ".join(cmd[:3]) + " ... ; " + exe + "\n" + (o or "") + (e or "")[-2000:]
    return text, ("REPRODUCED: " in (o or "")) or ("ERROR: AddressSanitizer" in (e or ""))


def rerun(path):
    rec = json.load(open(path))
    print(json.dumps({k: rec[k] for k in ("property", "job", "failed_obligations", "counterexample")}, indent=1))
    if rec.get("driver"):
        out, found = run_driver(rec["driver"], rec["driver_args"])
        print(out)
        print("REPRODUCED" if found else "NOT-REPRODUCED")
        return 1 if found else 0
    print("no native driver recorded for this obligation")
    return 0
