// native replay for the cache.* obligations: the verifier's counterexample is a cache STATE; every state satisfying the invariant
// is reached by one earlier call, so the replay enumerates two-call (and three-call) histories of the real *_simple function on
// a grid of dimensions / divisors / bounds and compares the LAST call, bit for bit, with the same call through a freshly built
// table (the property's statement).  Functions without a driver below: no replay (the obligation alone is reported).
#include "drv.h"
#include "reim/reim_fft.h"
#include "cplx/cplx_fft.h"
#define MAXM 64
static double buf_a[4 * MAXM], buf_b[4 * MAXM], out1[4 * MAXM], out2[4 * MAXM];
static int64_t iout1[4 * MAXM], iout2[4 * MAXM], iin[4 * MAXM];
static void fill(uint32_t m, double scale) {
  for (uint32_t i = 0; i < 2 * m; ++i) {
    double s = (i & 1) ? -1.0 : 1.0;
    buf_a[i] = s * scale * (1.0 + (double)(rnd() % 1000) / 1000.0) + 0.25 * (double)(i % 3);
    buf_b[i] = (double)rnd_bits(20);
    iin[i] = rnd_bits(45);
  }
}
int main(int argc, char** argv) {
  DRV_INIT(argc, argv);
  const char* fn = arg_s("fn", "reim_to_znx64_simple");
  static const uint32_t ms[] = {8, 16, 32};
  if (!strcmp(fn, "reim_to_znx64_simple")) {
    static const double ds[] = {1.0, 16.0};
    static const uint32_t lbs[] = {40, 50, 52, 63};
    // histories (c0, c1, c2): the last call is compared with a fresh table
    for (int h = 0; h < 3 * 2 * 4 * 3 * 2 * 4 * 3 * 2 * 4 && !g_found; ++h) {
      int x = h; uint32_t m[3]; double d[3]; uint32_t lb[3];
      for (int c = 0; c < 3; ++c) { m[c] = ms[x % 3]; x /= 3; d[c] = ds[x % 2]; x /= 2; lb[c] = lbs[x % 4]; x /= 4; }
      double scale = lb[2] <= 50 ? 0x1p48 : 0x1p51 * 1.3;   // inside the declared bound of the LAST call
      fill(m[2], scale * d[2]);
      for (int c = 0; c < 2; ++c) reim_to_znx64_simple(m[c], d[c], lb[c], iout1, buf_a);
      reim_to_znx64_simple(m[2], d[2], lb[2], iout1, buf_a);
      REIM_TO_ZNX64_PRECOMP* t = new_reim_to_znx64_precomp(m[2], d[2], lb[2]);
      reim_to_znx64(t, iout2, buf_a);
      for (uint32_t i = 0; i < 2 * m[2] && !g_found; ++i) if (iout1[i] != iout2[i])
        REPRODUCED("reim_to_znx64_simple after the history (m,div,log2bound) = (%u,%g,%u) (%u,%g,%u): call (%u,%g,%u) returns %ld at index %u, a freshly built table returns %ld (input %a)",
                   m[0], d[0], lb[0], m[1], d[1], lb[1], m[2], d[2], lb[2], (long)iout1[i], i, (long)iout2[i], buf_a[i]);
    }
    return drv_finish();
  }
  // dimension-keyed caches: histories (m0, m1, m2)
  for (int h = 0; h < 27 && !g_found; ++h) {
    uint32_t m[3] = {ms[h % 3], ms[(h / 3) % 3], ms[(h / 9) % 3]};
    fill(m[2], 100.0);
    for (int c = 0; c < 3; ++c) {
      if (!strcmp(fn, "reim_from_znx64_simple")) reim_from_znx64_simple(m[c], 45, out1, iin);
      else if (!strcmp(fn, "reim_fftvec_mul_simple")) reim_fftvec_mul_simple(m[c], out1, buf_a, buf_b);
      else if (!strcmp(fn, "cplx_fftvec_mul_simple")) cplx_fftvec_mul_simple(m[c], out1, buf_a, buf_b);
      else { printf("no replay driver for %s\n", fn); return drv_finish(); }
    }
    if (!strcmp(fn, "reim_from_znx64_simple")) reim_from_znx64(new_reim_from_znx64_precomp(m[2], 45), out2, iin);
    else if (!strcmp(fn, "reim_fftvec_mul_simple")) reim_fftvec_mul(new_reim_fftvec_mul_precomp(m[2]), out2, buf_a, buf_b);
    else cplx_fftvec_mul(new_cplx_fftvec_mul_precomp(m[2]), out2, buf_a, buf_b);
    if (memcmp(out1, out2, 2 * m[2] * 8)) REPRODUCED("%s after the history m = %u, %u: the call with m = %u differs from a freshly built table", fn, m[0], m[1], m[2]);
  }
  return drv_finish();
}
