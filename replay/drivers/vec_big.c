// native replay for the fft64 big-coefficient wrapper obligations (real module, real dispatch)
#include "drv.h"
#include "arithmetic/vec_znx_arithmetic_private.h"
static uint64_t ext(uint64_t size, uint64_t sl, uint64_t nn) { return size ? (size - 1) * sl + nn : 0; }
static int64_t at(const int64_t* v, uint64_t size, uint64_t sl, uint64_t limb, uint64_t j) { return limb < size ? v[limb * sl + j] : 0; }
int main(int argc, char** argv) {
  DRV_INIT(argc, argv);
  const char* fn = arg_s("fn", "fft64_vec_znx_big_add");
  uint64_t RS = arg_i("RS", 2), AS = arg_i("AS", 2), BS = arg_i("BS", 0);
  uint64_t AM = arg_i("AM", 1), AA = arg_i("AA", 0), BM = arg_i("BM", 1), BA = arg_i("BA", 0);
  int alias = arg_i("ALIAS", 0); int64_t p = arg_i("p", 3);
  uint64_t nns[] = {8, 16, 64};
  for (int t = 0; t < 3 && !g_found; ++t) {
    uint64_t nn = nns[t];
    MODULE* mod = new_module_info(nn, FFT64);
    int a_small = strstr(fn, "small_a") || strstr(fn, "small2"), b_small = strstr(fn, "small_b") || strstr(fn, "add_small") || strstr(fn, "small2");
    uint64_t rsl = nn, asl = a_small ? nn * AM + AA : nn, bsl = b_small ? nn * BM + BA : nn;
    if (alias == 1) asl = nn; if (alias == 2) bsl = nn;
    uint64_t REXT = alias == 1 ? (RS > AS ? RS : AS) : alias == 2 ? (RS > BS ? RS : BS) : RS;
    uint64_t rn = ext(REXT, rsl, nn), an = ext(AS, asl, nn), bn = ext(BS, bsl, nn);
    for (int rep = 0; rep < 20 && !g_found; ++rep) {
      int64_t* res = xalloc(rn * 8); int64_t* a = alias == 1 ? res : xalloc(an * 8); int64_t* b = alias == 2 ? res : xalloc(bn * 8);
      for (uint64_t i = 0; i < rn; ++i) res[i] = rnd_bits(60);
      if (alias != 1) for (uint64_t i = 0; i < an; ++i) a[i] = rnd_bits(60);
      if (alias != 2) for (uint64_t i = 0; i < bn; ++i) b[i] = rnd_bits(60);
      int64_t* r0 = xalloc(rn * 8); memcpy(r0, res, rn * 8); int64_t* a0 = xalloc(an * 8); memcpy(a0, a, an * 8); int64_t* b0 = xalloc(bn * 8); memcpy(b0, b, bn * 8);
      int kind = 0; VEC_ZNX_BIG* R = (VEC_ZNX_BIG*)res; const VEC_ZNX_BIG* A = (const VEC_ZNX_BIG*)a; const VEC_ZNX_BIG* B = (const VEC_ZNX_BIG*)b;
      if (!strcmp(fn, "fft64_vec_znx_big_add")) fft64_vec_znx_big_add(mod, R, RS, A, AS, B, BS);
      else if (!strcmp(fn, "fft64_vec_znx_big_sub")) { kind = 1; fft64_vec_znx_big_sub(mod, R, RS, A, AS, B, BS); }
      else if (!strcmp(fn, "fft64_vec_znx_big_add_small")) fft64_vec_znx_big_add_small(mod, R, RS, A, AS, b, BS, bsl);
      else if (!strcmp(fn, "fft64_vec_znx_big_sub_small_b")) { kind = 1; fft64_vec_znx_big_sub_small_b(mod, R, RS, A, AS, b, BS, bsl); }
      else if (!strcmp(fn, "fft64_vec_znx_big_sub_small_a")) { kind = 1; fft64_vec_znx_big_sub_small_a(mod, R, RS, a, AS, asl, B, BS); }
      else if (!strcmp(fn, "fft64_vec_znx_big_add_small2")) fft64_vec_znx_big_add_small2(mod, R, RS, a, AS, asl, b, BS, bsl);
      else if (!strcmp(fn, "fft64_vec_znx_big_sub_small2")) { kind = 1; fft64_vec_znx_big_sub_small2(mod, R, RS, a, AS, asl, b, BS, bsl); }
      else if (!strcmp(fn, "fft64_vec_znx_big_rotate")) { kind = 5; fft64_vec_znx_big_rotate(mod, p, R, RS, A, AS); }
      else if (!strcmp(fn, "fft64_vec_znx_big_automorphism")) { kind = 6; fft64_vec_znx_big_automorphism(mod, p | 1, R, RS, A, AS); }
      else { printf("unknown fn %s\n", fn); return 2; }
      for (uint64_t l = 0; l < RS && !g_found; ++l) {
        int64_t* exp = xalloc(nn * 8); int64_t* al = xalloc(nn * 8);
        for (uint64_t j = 0; j < nn; ++j) al[j] = at(a0, AS, asl, l, j);
        for (uint64_t j = 0; j < nn; ++j) { uint64_t x = al[j], y = at(b0, BS, bsl, l, j); exp[j] = kind == 0 ? (int64_t)(x + y) : (int64_t)(x - y); }
        if (kind == 5) znx_rotate_i64(nn, p, exp, al);
        if (kind == 6) znx_automorphism_i64(nn, p | 1, exp, al);
        for (uint64_t j = 0; j < nn && !g_found; ++j) if (res[l * rsl + j] != exp[j])
          REPRODUCED("%s N=%lu sizes(res,a,b)=(%lu,%lu,%lu) strides(a,b)=(%lu,%lu) alias=%d: res limb %lu coeff %lu = %ld, expected %ld", fn, (unsigned long)nn, (unsigned long)RS, (unsigned long)AS, (unsigned long)BS, (unsigned long)asl, (unsigned long)bsl, alias, (unsigned long)l, (unsigned long)j, (long)res[l * rsl + j], (long)exp[j]);
        free(exp); free(al);
      }
      for (uint64_t i = RS * nn; i < rn && !g_found; ++i) if (res[i] != r0[i]) REPRODUCED("%s: limb >= res_size modified", fn);
      if (alias != 1) { for (uint64_t i = 0; i < an && !g_found; ++i) if (a[i] != a0[i]) REPRODUCED("%s: source a modified", fn); free(a); }
      if (alias != 2) { for (uint64_t i = 0; i < bn && !g_found; ++i) if (b[i] != b0[i]) REPRODUCED("%s: source b modified", fn); free(b); }
      free(res); free(r0); free(a0); free(b0);
    }
    delete_module_info(mod);
  }
  return drv_finish();
}
