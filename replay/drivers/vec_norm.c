// native replay for vec_znx_normalize_base2k_ref obligations: the run's shape, exact-size heap buffers (ASan),
// oracle = balanced digit recurrence in 128-bit arithmetic
#include "drv.h"
#include "arithmetic/vec_znx_arithmetic_private.h"
static i128 dig(i128 x, int k) { i128 h = ((i128)1) << (k - 1); return ((x + h) & ((((i128)1) << k) - 1)) - h; }
int main(int argc, char** argv) {
  DRV_INIT(argc, argv);
  uint64_t RS = arg_i("RS", 2), AS = arg_i("AS", 2);
  uint64_t RM = arg_i("RM", 1), RA = arg_i("RA", 0), AM = arg_i("AM", 1), AA = arg_i("AA", 0);
  int alias = arg_i("ALIAS", 0);
  uint64_t ks[] = {(uint64_t)arg_i("NRM_K", arg_i("k", 13)), 1, 2, 19, 62};
  uint64_t nns[] = {(uint64_t)arg_i("nn", 8), 2, 8};
  int64_t olds[64]; int nold = 0; char key[16];
  for (int i = 0; i < 64; ++i) { snprintf(key, sizeof key, "old%d", i); if (!arg_has(key)) break; int64_t v = arg_i(key, 0); int dup = 0; for (int j = 0; j < nold; ++j) dup |= olds[j] == v; if (!dup && nold < 8) olds[nold++] = v; }
  uint64_t nperm = 1, perm = 0; for (uint64_t i = 0; i < AS && nold; ++i) nperm *= nold; if (nperm > 5000) nperm = 5000;
  for (int t = 0; t < 3 && !g_found; ++t) for (int kt = 0; kt < 5 && !g_found; ++kt) {
    uint64_t nn = nns[t], k = ks[kt]; if (nn == 0 || nn > 4096) nn = 8; if (k < 1 || k > 62) k = 13;
    MODULE mod; memset(&mod, 0, sizeof(mod)); mod.nn = nn; mod.m = nn / 2;
    uint64_t rsl = nn * RM + RA, asl = alias ? rsl : nn * AM + AA;
    uint64_t REXT = alias ? (RS > AS ? RS : AS) : RS;
    uint64_t rn = REXT ? (REXT - 1) * rsl + nn : 0, an = AS ? (AS - 1) * asl + nn : 0;
    int64_t* res = xalloc(rn * 8); int64_t* a = alias ? res : xalloc(an * 8); uint8_t* tmp = xalloc(nn * 8);
    for (uint64_t i = 0; i < rn; ++i) res[i] = rnd_bits(61);
    if (!alias) for (uint64_t i = 0; i < an; ++i) a[i] = rnd_bits(kt % 2 ? 62 : 40);
    // the verifier's counterexample: distinct __CPROVER_old snapshots are the input limbs at the ghost coefficient, in
    // an order we do not know -> try every assignment of distinct traced values to the limbs (coefficient 0), round-robin
    if (t == 0 && kt == 0 && nold >= 1 && AS >= 1 && perm < nperm) {
      uint64_t q = perm;
      for (uint64_t i = 0; i < AS; ++i) { a[i * asl + 0] = olds[q % nold]; q /= nold; }
      ++perm; if (perm < nperm) { kt = -1; }
    }
    int64_t* a0 = xalloc((alias ? rn : an) * 8); memcpy(a0, a, (alias ? rn : an) * 8);
    if (perm <= 1) printf("calling vec_znx_normalize_base2k_ref nn=%lu k=%lu res_size=%lu a_size=%lu (exact-size heap buffers)\n", (unsigned long)nn, (unsigned long)k, (unsigned long)RS, (unsigned long)AS); fflush(stdout);
    vec_znx_normalize_base2k_ref(&mod, k, res, RS, rsl, a, AS, asl, tmp);
    for (uint64_t g = 0; g < nn && !g_found; ++g) {
      i128 c = 0;
      for (int64_t i = (int64_t)AS - 1; i >= 0; --i) {
        i128 x = (i128)a0[i * asl + g] + c; i128 d = dig(x, k); c = (x - d) >> k;
        if ((uint64_t)i < RS && res[i * rsl + g] != (int64_t)d)
          REPRODUCED("nn=%lu k=%lu sizes=(%lu,%lu) coefficient %lu limb %ld: got %ld expected digit %ld", (unsigned long)nn, (unsigned long)k, (unsigned long)RS, (unsigned long)AS, (unsigned long)g, (long)i, (long)res[i * rsl + g], (long)(int64_t)d);
      }
      for (uint64_t i = AS; i < RS && !g_found; ++i) if (res[i * rsl + g] != 0) REPRODUCED("limb %lu >= a_size not zero", (unsigned long)i);
    }
    if (!alias) for (uint64_t i = 0; i < an && !g_found; ++i) if (a[i] != a0[i]) REPRODUCED("source modified at %lu", (unsigned long)i);
    free(res); if (!alias) free(a); free(tmp); free(a0);
  }
  return drv_finish();
}
