// native replay for the VMP obligations: the counterexample is the SHAPE of the job (N, res_size, a_size, nrows, ncols); the
// real functions run under AddressSanitizer on heap buffers of exactly the documented extents (bytes_of_vmp_pmat,
// *_tmp_bytes), with the scratch pre-filled, twice with different scratch contents (a result must not depend on it).
#include "drv.h"
#include "arithmetic/vec_znx_arithmetic_private.h"
int main(int argc, char** argv) {
  DRV_INIT(argc, argv);
  const char* fn = arg_s("fn", "apply_dft_to_dft_ref");
  uint64_t N = arg_i("NCONC", 8), RS = arg_i("RS", 1), AS = arg_i("AS", 1), NR = arg_i("NR", 1), NC = arg_i("NC", 1);
  MODULE* mod = new_module_info(N, FFT64);
  uint64_t rmax = NR < AS ? NR : AS, cmax = NC < RS ? NC : RS;
  if (strstr(fn, "prepare")) {
    VMP_PMAT* pmat = xalloc(NR * NC * N * 8); int64_t* mat = xalloc(NR * NC * N * 8);
    for (uint64_t i = 0; i < NR * NC * N; ++i) mat[i] = rnd_bits(20);
    uint64_t tb = fft64_vmp_prepare_contiguous_tmp_bytes(mod, NR, NC); uint8_t* tmp = xalloc(tb);
    if (strstr(fn, "avx")) fft64_vmp_prepare_contiguous_avx(mod, pmat, mat, NR, NC, tmp); else fft64_vmp_prepare_contiguous_ref(mod, pmat, mat, NR, NC, tmp);
    return drv_finish();  // only ASan can reproduce a frame / extent violation here
  }
  if (strstr(fn, "full")) {   // fft64_vmp_apply_dft_{ref,avx}: int64 input with stride N+1, scratch of exactly vmp_apply_dft_tmp_bytes
    uint64_t asl = N + arg_i("ASL_ADD", 1);
    double* pm = xalloc(NR * NC * N * 8); int64_t* a = xalloc(AS ? ((AS - 1) * asl + N) * 8 : 0); double* res = xalloc(RS * N * 8);
    for (uint64_t i = 0; i < NR * NC * N; ++i) pm[i] = (double)rnd_bits(10);
    for (uint64_t i = 0; AS && i < (AS - 1) * asl + N; ++i) a[i] = rnd_bits(20);
    uint64_t tb = fft64_vmp_apply_dft_tmp_bytes(mod, RS, AS, NR, NC); uint8_t* tmp = xalloc(tb);
    if (strstr(fn, "avx")) fft64_vmp_apply_dft_avx(mod, (VEC_ZNX_DFT*)res, RS, a, AS, asl, (const VMP_PMAT*)pm, NR, NC, tmp);
    else fft64_vmp_apply_dft_ref(mod, (VEC_ZNX_DFT*)res, RS, a, AS, asl, (const VMP_PMAT*)pm, NR, NC, tmp);
    for (uint64_t c = cmax; c < RS && !g_found; ++c) for (uint64_t j = 0; j < N; ++j) if (res[c * N + j] != 0.0) { REPRODUCED("%s: column %lu beyond the matrix is not zero", fn, (unsigned long)c); break; }
    return drv_finish();  // otherwise only ASan can reproduce an extent / scratch violation
  }
  double* out[2];
  for (int rep = 0; rep < 2; ++rep) {
    rng_s = 0x9E3779B97F4A7C15ull;
    double* pm = xalloc(NR * NC * N * 8); double* a = xalloc(AS * N * 8); double* res = xalloc(RS * N * 8);
    for (uint64_t i = 0; i < NR * NC * N; ++i) pm[i] = (double)rnd_bits(10);
    for (uint64_t i = 0; i < AS * N; ++i) a[i] = (double)rnd_bits(10);
    for (uint64_t i = 0; i < RS * N; ++i) res[i] = 12345.0 + rep;
    uint64_t tb = fft64_vmp_apply_dft_to_dft_tmp_bytes(mod, RS, AS, NR, NC); uint8_t* tmp = xalloc(tb);
    memset(tmp, rep ? 0x7f : 0x11, tb);
    if (strstr(fn, "avx")) fft64_vmp_apply_dft_to_dft_avx(mod, (VEC_ZNX_DFT*)res, RS, (const VEC_ZNX_DFT*)a, AS, (const VMP_PMAT*)pm, NR, NC, tmp);
    else fft64_vmp_apply_dft_to_dft_ref(mod, (VEC_ZNX_DFT*)res, RS, (const VEC_ZNX_DFT*)a, AS, (const VMP_PMAT*)pm, NR, NC, tmp);
    out[rep] = res;
    for (uint64_t c = cmax; c < RS && !g_found; ++c) for (uint64_t j = 0; j < N; ++j) if (res[c * N + j] != 0.0) { REPRODUCED("%s N=%lu (res,a,nrows,ncols)=(%lu,%lu,%lu,%lu): column %lu beyond the matrix is not zero", fn, (unsigned long)N, (unsigned long)RS, (unsigned long)AS, (unsigned long)NR, (unsigned long)NC, (unsigned long)c); break; }
    if (rmax == 0) for (uint64_t i = 0; i < cmax * N && !g_found; ++i) if (res[i] != 0.0) REPRODUCED("%s N=%lu (res,a,nrows,ncols)=(%lu,%lu,%lu,%lu): no usable row but result[%lu] = %g (must be zero)", fn, (unsigned long)N, (unsigned long)RS, (unsigned long)AS, (unsigned long)NR, (unsigned long)NC, (unsigned long)i, res[i]);
  }
  for (uint64_t i = 0; i < RS * N && !g_found; ++i) if (memcmp(&out[0][i], &out[1][i], 8)) REPRODUCED("%s: result[%lu] depends on the previous contents of scratch / output", fn, (unsigned long)i);
  return drv_finish();
}
