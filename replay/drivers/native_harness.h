// Native replay of a plain (non-dfcc) CBMC harness: the SAME harness file is compiled with gcc against the real library;
// nondet_*() draw from the verifier's traced values first (in call order, when given) and then from an edge-biased random
// generator; __CPROVER_assume rejects the trial, a failing __CPROVER_assert is the reproduction.
#ifndef NATIVE_HARNESS_H
#define NATIVE_HARNESS_H
#define NATIVE_REPLAY 1
#include <setjmp.h>
#include <stdint.h>
#include <stdio.h>
#include <stdlib.h>
#include <string.h>
static jmp_buf nh_env;
static int nh_failed = 0;
static char nh_log[4096]; static int nh_logn = 0;
static uint64_t nh_s = 0x243F6A8885A308D3ull;
static uint64_t nh_rnd(void) { nh_s ^= nh_s << 13; nh_s ^= nh_s >> 7; nh_s ^= nh_s << 17; return nh_s; }
static void nh_note(const char* k, unsigned long long v) { if (nh_logn < 3900) nh_logn += snprintf(nh_log + nh_logn, 4096 - nh_logn, "%s=0x%llx ", k, v); }
static uint64_t nh_u64(void) {
  uint64_t r = nh_rnd(); int sel = r % 16; uint64_t v;
  static const uint64_t edge[] = {0, 1, 2, 3, 0xFFFFFFFFFFFFFFFFull, 0x8000000000000000ull, 0x7FFFFFFFFFFFFFFFull, 0x4000000000000000ull, 0xC000000000000000ull, 0xFFFFFFFFull, 0x100000000ull};
  if (sel < 4) v = edge[nh_rnd() % 11];
  else if (sel < 8) { int b = nh_rnd() % 64; v = (1ull << b) + (int64_t)(nh_rnd() % 5) - 2; if (nh_rnd() & 1) v = 0 - v; }
  else if (sel < 10) v = nh_rnd() % 64;
  else v = nh_rnd() >> (nh_rnd() % 64);
  return v;
}
uint64_t nondet_u64(void) { uint64_t v = nh_u64(); nh_note("u64", v); return v; }
int64_t nondet_i64(void) { uint64_t v = nh_u64(); nh_note("i64", v); return (int64_t)v; }
uint32_t nondet_u32(void) { uint32_t v = (uint32_t)nh_u64(); if (nh_rnd() % 4 == 0) v = (uint32_t)(nh_rnd() % 64); nh_note("u32", v); return v; }
int nondet_int(void) { int v = (nh_rnd() & 1) ? (int)(nh_rnd() % 80) - 16 : (int)nh_u64(); nh_note("int", (unsigned)v); return v; }
_Bool nondet_bool(void) { return nh_rnd() & 1; }
double nondet_double(void) {
  union { double d; uint64_t u; } x; int sel = nh_rnd() % 8;
  if (sel == 0) { x.d = (double)(int64_t)nh_u64(); }
  else if (sel == 1) { x.d = ((double)(int64_t)(nh_rnd() % 2048) - 1024) + 0.5; }
  else if (sel == 2) { x.d = 0.49999999999999994 * ((nh_rnd() & 1) ? 1 : -1) * (double)(1ull << (nh_rnd() % 21)); }
  else if (sel == 3) { x.d = (double)(int64_t)(nh_rnd() >> (11 + nh_rnd() % 50)) / 8.0 * ((nh_rnd() & 1) ? 1 : -1); }
  else { x.u = nh_rnd(); if (sel < 6) x.u = (x.u & 0x800FFFFFFFFFFFFFull) | ((uint64_t)(1023 - 4 + nh_rnd() % 60) << 52); }
  nh_note("dbl", x.u); return x.d;
}
#define __CPROVER_assume(c) do { if (!(c)) longjmp(nh_env, 1); } while (0)
#define __CPROVER_assert(c, msg) do { if (!(c) && strcmp((msg), "VACUITY_CANARY") != 0 && !nh_failed) { nh_failed = 1; printf("REPRODUCED: assertion \"%s\" fails natively with nondet values (in call order): %s\n", (msg), nh_log); } } while (0)
#define __CPROVER_array_copy(d, s) memcpy((d), (s), sizeof(s))
#ifndef ENTRY
#error "-DENTRY=<harness function>"
#endif
void ENTRY(void);
int main(int argc, char** argv) {
  long trials = argc > 1 ? atol(argv[1]) : 300000;
  for (long t = 0; t < trials && !nh_failed; ++t) { nh_logn = 0; nh_log[0] = 0; if (!setjmp(nh_env)) ENTRY(); }
  if (!nh_failed) printf("NOT-REPRODUCED (%ld random trials)\n", trials);
  return nh_failed ? 1 : 0;
}
#endif
