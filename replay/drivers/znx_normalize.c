// native replay for znx_normalize obligations: traced (k, shape, x, cin) first, then edge and pseudo-random inputs
#include "drv.h"
void znx_normalize(uint64_t nn, uint64_t base_k, int64_t* out, int64_t* carry_out, const int64_t* in, const int64_t* carry_in);
#define P2(e) (((i128)1) << (e))
static int check(uint64_t nn, uint64_t k, int has_out, int has_cout, int has_cin, int alias_out, int alias_c, const int64_t* in0, const int64_t* cin0, const char* what) {
  int64_t* in = xalloc(nn * 8); memcpy(in, in0, nn * 8);
  int64_t* out = has_out ? (alias_out ? in : xalloc(nn * 8)) : 0;
  int64_t* cout = has_cout ? xalloc(nn * 8) : 0;
  int64_t* cin = has_cin ? (alias_c && cout ? cout : xalloc(nn * 8)) : 0;
  if (cin) memcpy(cin, cin0, nn * 8);
  if (cout && cout != cin) for (uint64_t i = 0; i < nn; ++i) cout[i] = (int64_t)rnd();
  if (out && out != in) for (uint64_t i = 0; i < nn; ++i) out[i] = (int64_t)rnd();
  znx_normalize(nn, k, out, cout, in, cin);
  int bad = 0;
  for (uint64_t g = 0; g < nn && !bad; ++g) {
    i128 X = (i128)in0[g] + (has_cin ? cin0[g] : 0);
    if (out && !(-P2(k - 1) <= out[g] && out[g] < P2(k - 1))) bad = 1;
    if (out && cout && X != (i128)out[g] + (((i128)cout[g]) << k)) bad = 2;
    if (out && !cout && (((X - out[g]) & (P2(k) - 1)) != 0)) bad = 3;
    if (!out) { i128 D = X - (((i128)cout[g]) << k); if (!(-P2(k - 1) <= D && D < P2(k - 1))) bad = 4; }
    if (cout && !(-P2(62) <= cout[g] && cout[g] <= P2(62))) bad = 5;
    if (out != in && in[g] != in0[g]) bad = 6;
    if (cin && cin != cout && cin[g] != cin0[g]) bad = 7;
    if (bad) REPRODUCED("znx_normalize(nn=%lu,k=%lu,out=%s,cout=%s,cin=%s) coefficient %lu: in=%ld cin=%ld -> out=%ld cout=%ld violates clause %d (1 balanced,2 in+cin==out+cout*2^k,3 digit congruence,4 carry-only,5 carry bound,6/7 source modified) [%s]",
                        (unsigned long)nn, (unsigned long)k, out ? (out == in ? "in" : "buf") : "NULL", cout ? "buf" : "NULL", cin ? (cin == cout ? "cout" : "buf") : "NULL",
                        (unsigned long)g, (long)in0[g], (long)(has_cin ? cin0[g] : 0), (long)(out ? out[g] : 0), (long)(cout ? cout[g] : 0), bad, what);
  }
  if (out && out != in) free(out);
  if (cin && cin != cout) free(cin);
  if (cout) free(cout);
  free(in);
  return bad;
}
int main(int argc, char** argv) {
  DRV_INIT(argc, argv);
  uint64_t k = arg_i("NRM_K", arg_i("base_k", 13));
  int ho = arg_i("NRM_OUT", 1), hc = arg_i("NRM_COUT", 1), hi = arg_i("NRM_CIN", 1);
  uint64_t nn = 16;
  int64_t* in0 = xalloc(nn * 8); int64_t* cin0 = xalloc(nn * 8);
  int64_t edge[] = {0, 1, -1, (int64_t)1 << 62, -((int64_t)1 << 62), ((int64_t)1 << 62) - 1, 1 - ((int64_t)1 << 62)};
  for (int round = 0; round < 4000 && !g_found; ++round) {
    for (uint64_t i = 0; i < nn; ++i) { in0[i] = rnd_bits(round % 63); cin0[i] = rnd_bits((round / 7) % 63); if (in0[i] > P2(62)) in0[i] = P2(62); }
    if (round == 0 && arg_has("x")) { in0[0] = arg_i("x", 0); cin0[0] = arg_i("cin", 0); }
    if (round < 49) { in0[1] = edge[round % 7]; cin0[1] = edge[round / 7]; in0[2] = (int64_t)((1ull << (k - 1))) - (round & 1); cin0[2] = edge[round % 7]; }
    for (int al = 0; al < 4 && !g_found; ++al) check(nn, k, ho, hc, hi, al & 1, al >> 1, in0, cin0, round == 0 ? "traced+random fill" : "search at the traced k and argument shape");
  }
  return drv_finish();
}
