// native replay for the a*a / b*b product range obligations: extremal operands at the lengths where a wrap would first
// show (every lane maximal, ell up to 10000), residues of the real function against a 128-bit oracle
#include "drv.h"
#include "q120/q120_arithmetic.h"
#include "q120/q120_common.h"
typedef unsigned __int128 u128;
int main(int argc, char** argv) {
  DRV_INIT(argc, argv);
  const char* fn = arg_s("fn", "baa");
  static const uint64_t q[4] = {Q1, Q2, Q3, Q4};
  static const uint64_t ells[] = {10000, 9999, 8193, 8192, 8191, 4096, 7, 3, 2, 1};
  int isb = !strncmp(fn, "bbb", 3);
  int avx = strstr(fn, "avx2") != 0;   // the AVX2 twin of the same product
  void* pre = isb ? (void*)q120_new_vec_mat1col_product_bbb_precomp() : (void*)q120_new_vec_mat1col_product_baa_precomp();
  for (int pat = 0; pat < 4 && !g_found; ++pat)
    for (unsigned e = 0; e < sizeof(ells) / sizeof(*ells) && !g_found; ++e) {
      uint64_t ell = ells[e];
      uint64_t* x = xalloc(ell * 32); uint64_t* y = xalloc(ell * 32); uint64_t res[4];
      uint64_t top = isb ? ~(uint64_t)0 : 0xffffffffull;
      for (uint64_t i = 0; i < 4 * ell; ++i) { x[i] = pat == 0 ? top : pat == 1 ? top - (rnd() % 3) : (rnd() & top); y[i] = pat == 2 ? (rnd() & top) : top; }
      // pattern 3: unbalanced high halves (full lanes against lanes with an empty high half, y = 2^32 for layout b)
      if (pat == 3) for (uint64_t i = 0; i < 4 * ell; ++i) { x[i] = ((i / 4) % 2 == 0) ? top : (top >> (isb ? 32 : 16)); y[i] = isb ? (((uint64_t)1) << 32) : top; }
      if (isb && avx) q120_vec_mat1col_product_bbb_avx2(pre, ell, (q120b*)res, (const q120b*)x, (const q120b*)y);
      else if (isb) q120_vec_mat1col_product_bbb_ref(pre, ell, (q120b*)res, (const q120b*)x, (const q120b*)y);
      else if (avx) q120_vec_mat1col_product_baa_avx2(pre, ell, (q120b*)res, (const q120a*)x, (const q120a*)y);
      else q120_vec_mat1col_product_baa_ref(pre, ell, (q120b*)res, (const q120a*)x, (const q120a*)y);
      for (int k = 0; k < 4 && !g_found; ++k) {
        u128 acc = 0;
        for (uint64_t i = 0; i < ell; ++i) acc = (acc + (u128)(x[4 * i + k] % q[k]) * (y[4 * i + k] % q[k])) % q[k];
        if (res[k] % q[k] != (uint64_t)acc)
          REPRODUCED("q120_vec_mat1col_product_%s ell=%lu operand pattern %d: lane %d is %lu mod q = %lu, the sum of products is %lu mod q", fn, (unsigned long)ell, pat, k, (unsigned long)res[k], (unsigned long)(res[k] % q[k]), (unsigned long)acc);
      }
      free(x); free(y);
    }
  return drv_finish();
}
