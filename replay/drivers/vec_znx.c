// native replay for the S3 vec_znx wrapper obligations: the run's concrete shape (limb counts, strides, aliasing) with
// the traced nn first, then other dimensions; random data; oracle = per-limb operation with zero extension;
// also checks padding, tail limbs, sources, and (ASan) bounds on exactly-sized heap buffers.
#include "drv.h"
#include "arithmetic/vec_znx_arithmetic_private.h"
#include "coeffs/coeffs_arithmetic.h"
typedef void (*F3)(const MODULE*, int64_t*, uint64_t, uint64_t, const int64_t*, uint64_t, uint64_t, const int64_t*, uint64_t, uint64_t);
typedef void (*F2)(const MODULE*, int64_t*, uint64_t, uint64_t, const int64_t*, uint64_t, uint64_t);
typedef void (*F2P)(const MODULE*, int64_t, int64_t*, uint64_t, uint64_t, const int64_t*, uint64_t, uint64_t);
typedef void (*F1)(const MODULE*, int64_t*, uint64_t, uint64_t);
static uint64_t ext(uint64_t size, uint64_t sl, uint64_t nn) { return size ? (size - 1) * sl + nn : 0; }
static int64_t at(const int64_t* v, uint64_t size, uint64_t sl, uint64_t limb, uint64_t j) { return limb < size ? v[limb * sl + j] : 0; }
int main(int argc, char** argv) {
  DRV_INIT(argc, argv);
  const char* fn = arg_s("fn", "vec_znx_add_ref");
  uint64_t RS = arg_i("RS", 2), AS = arg_i("AS", 2), BS = arg_i("BS", 0);
  uint64_t RM = arg_i("RM", 1), RA = arg_i("RA", 0), AM = arg_i("AM", 1), AA = arg_i("AA", 0), BM = arg_i("BM", 1), BA = arg_i("BA", 0);
  int alias = arg_i("ALIAS", 0);
  int64_t p = arg_i("p", 3);
  uint64_t nns[] = {(uint64_t)arg_i("nn", 8), 1, 2, 4, 8, 16, 64};
  for (int t = 0; t < 7 && !g_found; ++t) {
    uint64_t nn = nns[t];
    if (nn == 0 || nn > 4096) nn = 8;
    if ((strstr(fn, "rotate") || strstr(fn, "autom")) && nn < 2) continue;
    MODULE mod; memset(&mod, 0, sizeof(mod)); mod.nn = nn; mod.m = nn / 2;
    uint64_t rsl = nn * RM + RA, asl = nn * AM + AA, bsl = nn * BM + BA;
    uint64_t REXT = alias == 1 ? (RS > AS ? RS : AS) : alias == 2 ? (RS > BS ? RS : BS) : RS;
    if (alias == 1) asl = rsl; if (alias == 2) bsl = rsl; if (alias == 3) bsl = asl;
    uint64_t rn = ext(REXT, rsl, nn), an = ext(AS, asl, nn), bn = ext(BS, bsl, nn);
    for (int rep = 0; rep < 50 && !g_found; ++rep) {
      int64_t* res = xalloc(rn * 8); int64_t* a = alias == 1 ? res : xalloc(an * 8); int64_t* b = alias == 2 ? res : alias == 3 ? a : xalloc(bn * 8);
      for (uint64_t i = 0; i < rn; ++i) res[i] = (int64_t)rnd();
      if (alias != 1) for (uint64_t i = 0; i < an; ++i) a[i] = rnd_bits(rep % 2 ? 62 : 63);
      if (alias != 2 && alias != 3) for (uint64_t i = 0; i < bn; ++i) b[i] = rnd_bits(62);
      int64_t* r0 = xalloc(rn * 8); memcpy(r0, res, rn * 8);
      int64_t* a0 = xalloc(an * 8); memcpy(a0, a, an * 8);
      int64_t* b0 = xalloc(bn * 8); memcpy(b0, b, bn * 8);
      int kind = 0;  // 0 add 1 sub 2 negate 3 copy 4 zero 5 rotate 6 automorphism
      if (!strcmp(fn, "vec_znx_add_ref")) ((F3)vec_znx_add_ref)(&mod, res, RS, rsl, a, AS, asl, b, BS, bsl);
      else if (!strcmp(fn, "vec_znx_add_avx")) ((F3)vec_znx_add_avx)(&mod, res, RS, rsl, a, AS, asl, b, BS, bsl);
      else if (!strcmp(fn, "vec_znx_sub_ref")) { kind = 1; ((F3)vec_znx_sub_ref)(&mod, res, RS, rsl, a, AS, asl, b, BS, bsl); }
      else if (!strcmp(fn, "vec_znx_sub_avx")) { kind = 1; ((F3)vec_znx_sub_avx)(&mod, res, RS, rsl, a, AS, asl, b, BS, bsl); }
      else if (!strcmp(fn, "vec_znx_negate_ref")) { kind = 2; vec_znx_negate_ref(&mod, res, RS, rsl, a, AS, asl); }
      else if (!strcmp(fn, "vec_znx_negate_avx")) { kind = 2; vec_znx_negate_avx(&mod, res, RS, rsl, a, AS, asl); }
      else if (!strcmp(fn, "vec_znx_copy_ref")) { kind = 3; vec_znx_copy_ref(&mod, res, RS, rsl, a, AS, asl); }
      else if (!strcmp(fn, "vec_znx_zero_ref")) { kind = 4; vec_znx_zero_ref(&mod, res, RS, rsl); }
      else if (!strcmp(fn, "vec_znx_rotate_ref")) { kind = 5; vec_znx_rotate_ref(&mod, p, res, RS, rsl, a, AS, asl); }
      else if (!strcmp(fn, "vec_znx_automorphism_ref")) { kind = 6; vec_znx_automorphism_ref(&mod, p | 1, res, RS, rsl, a, AS, asl); }
      else { printf("unknown fn %s\n", fn); return 2; }
      for (uint64_t l = 0; l < RS && !g_found; ++l) {
        int64_t* exp = xalloc(nn * 8);
        int64_t* al = xalloc(nn * 8);
        for (uint64_t j = 0; j < nn; ++j) al[j] = at(a0, AS, asl, l, j);
        for (uint64_t j = 0; j < nn; ++j) {
          int64_t x = al[j], y = at(b0, BS, bsl, l, j);
          exp[j] = kind == 0 ? (int64_t)((uint64_t)x + (uint64_t)y) : kind == 1 ? (int64_t)((uint64_t)x - (uint64_t)y) : kind == 2 ? (int64_t)(0 - (uint64_t)x) : kind == 3 ? x : 0;
        }
        if (kind == 5) znx_rotate_i64(nn, p, exp, al);            // out-of-place kernels are under their own contract
        if (kind == 6) znx_automorphism_i64(nn, p | 1, exp, al);
        for (uint64_t j = 0; j < nn && !g_found; ++j)
          if (res[l * rsl + j] != exp[j])
            REPRODUCED("%s nn=%lu sizes(res,a,b)=(%lu,%lu,%lu) strides=(%lu,%lu,%lu) alias=%d p=%ld: res limb %lu coeff %lu = %ld, expected %ld",
                       fn, (unsigned long)nn, (unsigned long)RS, (unsigned long)AS, (unsigned long)BS, (unsigned long)rsl, (unsigned long)asl, (unsigned long)bsl, alias, (long)p, (unsigned long)l, (unsigned long)j, (long)res[l * rsl + j], (long)exp[j]);
        free(exp); free(al);
      }
      for (uint64_t i = 0; i < rn && !g_found; ++i) {
        uint64_t l = i / rsl, j = i % rsl;
        if ((j >= nn || l >= RS) && res[i] != r0[i]) REPRODUCED("%s nn=%lu: cell limb %lu offset %lu (padding or limb >= res_size) modified", fn, (unsigned long)nn, (unsigned long)l, (unsigned long)j);
      }
      if (alias != 1) for (uint64_t i = 0; i < an && !g_found; ++i) if (a[i] != a0[i]) REPRODUCED("%s: source a modified at %lu", fn, (unsigned long)i);
      if (alias != 2 && alias != 3) for (uint64_t i = 0; i < bn && !g_found; ++i) if (b[i] != b0[i]) REPRODUCED("%s: source b modified at %lu", fn, (unsigned long)i);
      if (alias != 1) free(a); if (alias != 2 && alias != 3) free(b); free(res); free(r0); free(a0); free(b0);
    }
  }
  return drv_finish();
}
