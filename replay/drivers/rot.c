// native replay for rotation / (X^p-1) / automorphism kernel obligations: traced (nn, p) first, then a sweep of small
// dimensions and every residue p mod 2nn (odd ones for automorphisms) with random data, against the naive ring map
#include "drv.h"
#include "coeffs/coeffs_arithmetic.h"
static void naive_rot(uint64_t nn, int64_t p, int64_t* r, const int64_t* a) {  // r = a * X^p
  for (uint64_t i = 0; i < nn; ++i) { uint64_t e = ((uint64_t)i + (uint64_t)p) & (2 * nn - 1); if (e < nn) r[e] = a[i]; else r[e - nn] = (int64_t)(0 - (uint64_t)a[i]); }
}
static void naive_aut(uint64_t nn, int64_t p, int64_t* r, const int64_t* a) {  // r = a(X^p)
  for (uint64_t i = 0; i < nn; ++i) { uint64_t e = ((uint64_t)i * (uint64_t)p) & (2 * nn - 1); if (e < nn) r[e] = a[i]; else r[e - nn] = (int64_t)(0 - (uint64_t)a[i]); }
}
static int try_one(const char* fn, uint64_t nn, int64_t p) {
  int64_t* a = xalloc(nn * 8); int64_t* r = xalloc(nn * 8); int64_t* e = xalloc(nn * 8);
  double* da = xalloc(nn * 8); double* dr = xalloc(nn * 8);
  for (uint64_t i = 0; i < nn; ++i) { a[i] = rnd_bits(40) | 1; da[i] = (double)a[i]; }
  int isaut = strstr(fn, "autom") != 0, ismul = strstr(fn, "mul_xp") != 0, isd = fn[0] == 'r';
  if (isaut) p |= 1;
  if (isaut) naive_aut(nn, p, e, a); else naive_rot(nn, p, e, a);
  if (ismul) for (uint64_t i = 0; i < nn; ++i) e[i] -= a[i];
  if (!strcmp(fn, "znx_rotate_i64")) znx_rotate_i64(nn, p, r, a);
  else if (!strcmp(fn, "znx_mul_xp_minus_one")) znx_mul_xp_minus_one(nn, p, r, a);
  else if (!strcmp(fn, "znx_automorphism_i64")) znx_automorphism_i64(nn, p, r, a);
  else if (!strcmp(fn, "rnx_rotate_f64")) rnx_rotate_f64(nn, p, dr, da);
  else if (!strcmp(fn, "rnx_mul_xp_minus_one")) rnx_mul_xp_minus_one(nn, p, dr, da);
  else if (!strcmp(fn, "rnx_automorphism_f64")) rnx_automorphism_f64(nn, p, dr, da);
  else { printf("unknown fn %s\n", fn); exit(2); }
  int bad = 0;
  for (uint64_t i = 0; i < nn && !bad; ++i) {
    int64_t got = isd ? (int64_t)dr[i] : r[i];
    if (got != e[i]) { bad = 1; REPRODUCED("%s nn=%lu p=%ld: coefficient %lu = %ld, ring map gives %ld", fn, (unsigned long)nn, (long)p, (unsigned long)i, (long)got, (long)e[i]); }
  }
  free(a); free(r); free(e); free(da); free(dr);
  return bad;
}
int main(int argc, char** argv) {
  DRV_INIT(argc, argv);
  const char* fn = arg_s("fn", "znx_rotate_i64");
  uint64_t tn = (uint64_t)arg_i("nn", 8); int64_t tp = arg_i("p", 3);
  if (tn >= 1 && tn <= 65536 && (tn & (tn - 1)) == 0) try_one(fn, tn, tp);
  for (uint64_t nn = 1; nn <= 64 && !g_found; nn *= 2)
    for (int64_t p = -(int64_t)(2 * nn) - 1; p <= (int64_t)(4 * nn) && !g_found; ++p) {
      try_one(fn, nn, p);
      if (!g_found && (p & 7) == 0) try_one(fn, nn, p + ((int64_t)1 << 61) + ((int64_t)1 << 40));
    }
  return drv_finish();
}
