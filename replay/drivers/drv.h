// helpers for native replay drivers: key=value arguments, exact-size buffers (ASan guards them), rng
#ifndef DRV_H
#define DRV_H
#include <stdint.h>
#include <stdio.h>
#include <stdlib.h>
#include <string.h>
typedef __int128 i128;
static int g_argc; static char** g_argv;
static const char* arg_s(const char* k, const char* def) {
  size_t n = strlen(k);
  for (int i = 1; i < g_argc; ++i) if (!strncmp(g_argv[i], k, n) && g_argv[i][n] == '=') return g_argv[i] + n + 1;
  return def;
}
static int arg_has(const char* k) { return arg_s(k, 0) != 0; }
static int64_t arg_i(const char* k, int64_t def) {
  const char* s = arg_s(k, 0);
  if (!s || !*s || (!(s[0] == '-' || (s[0] >= '0' && s[0] <= '9')))) return def;
  if (s[0] == '-') return (int64_t)strtoll(s, 0, 10);
  return (int64_t)strtoull(s, 0, 10);
}
static double arg_d(const char* k, double def) { const char* s = arg_s(k, 0); return s ? strtod(s, 0) : def; }
static uint64_t rng_s = 0x9E3779B97F4A7C15ull;
static uint64_t rnd(void) { rng_s ^= rng_s << 13; rng_s ^= rng_s >> 7; rng_s ^= rng_s << 17; return rng_s; }
static int64_t rnd_bits(int bits) {  // uniform in [-2^bits, 2^bits]
  if (bits >= 63) return (int64_t)rnd();
  uint64_t m = (1ull << (bits + 1));
  int64_t v = (int64_t)(rnd() % (m + 1)) - (int64_t)(1ull << bits);
  return v;
}
static void* xalloc(size_t bytes) { void* p = malloc(bytes ? bytes : 1); if (!p) abort(); return p; }
#define DRV_INIT(argc, argv) do { g_argc = argc; g_argv = argv; } while (0)
static int g_found = 0;
#define REPRODUCED(...) do { printf("REPRODUCED: "); printf(__VA_ARGS__); printf("\n"); g_found = 1; } while (0)
static int drv_finish(void) { if (!g_found) printf("NOT-REPRODUCED\n"); return g_found ? 1 : 0; }
#endif
