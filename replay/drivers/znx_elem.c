// native replay for element-kernel obligations (znx add/sub/negate/copy/zero, ref and avx)
#include "drv.h"
#include "coeffs/coeffs_arithmetic.h"
int main(int argc, char** argv) {
  DRV_INIT(argc, argv);
  const char* fn = arg_s("fn", "znx_add_i64_ref");
  const char* op = arg_s("op", "add");
  uint64_t nns[] = {(uint64_t)arg_i("nn", 8), 1, 2, 4, 8, 16, 32, 1024};
  int avx = strstr(fn, "_avx") != 0;
  for (int t = 0; t < 8 && !g_found; ++t) {
    uint64_t nn = nns[t]; if (nn == 0 || nn > 65536) nn = 8;
    for (int alias = 0; alias < 4 && !g_found; ++alias) {   // 0 none 1 res==a 2 res==b 3 a==b
      int64_t* res = xalloc(nn * 8); int64_t* a = alias == 1 ? res : xalloc(nn * 8); int64_t* b = alias == 2 ? res : alias == 3 ? a : xalloc(nn * 8);
      for (uint64_t i = 0; i < nn; ++i) { res[i] = rnd(); }
      if (alias != 1) for (uint64_t i = 0; i < nn; ++i) a[i] = rnd();
      if (alias != 2 && alias != 3) for (uint64_t i = 0; i < nn; ++i) b[i] = rnd();
      if (t == 0 && arg_has("old0")) { uint64_t g = (uint64_t)arg_i("G", 0) % nn; a[g] = arg_i("old0", 0); if (alias == 0) b[g] = arg_i("old1", 0); }
      a[0] = INT64_MIN; if (nn > 1) a[1] = INT64_MAX;
      int64_t* a0 = xalloc(nn * 8); memcpy(a0, a, nn * 8); int64_t* b0 = xalloc(nn * 8); memcpy(b0, b, nn * 8);
      if (!strcmp(op, "add")) (avx ? znx_add_i64_avx : znx_add_i64_ref)(nn, res, a, b);
      else if (!strcmp(op, "sub")) (avx ? znx_sub_i64_avx : znx_sub_i64_ref)(nn, res, a, b);
      else if (!strcmp(op, "neg")) (avx ? znx_negate_i64_avx : znx_negate_i64_ref)(nn, res, a);
      else if (!strcmp(op, "copy")) znx_copy_i64_ref(nn, res, a);
      else znx_zero_i64_ref(nn, res);
      for (uint64_t g = 0; g < nn && !g_found; ++g) {
        uint64_t x = a0[g], y = b0[g];
        int64_t e = !strcmp(op, "add") ? (int64_t)(x + y) : !strcmp(op, "sub") ? (int64_t)(x - y) : !strcmp(op, "neg") ? (int64_t)(0 - x) : !strcmp(op, "copy") ? (int64_t)x : 0;
        if (res[g] != e) REPRODUCED("%s nn=%lu alias=%d coefficient %lu: a=%ld b=%ld -> %ld expected %ld", fn, (unsigned long)nn, alias, (unsigned long)g, (long)x, (long)y, (long)res[g], (long)e);
        if (alias != 1 && a[g] != a0[g]) REPRODUCED("%s: source a modified at %lu", fn, (unsigned long)g);
        if (alias != 2 && alias != 3 && b[g] != b0[g]) REPRODUCED("%s: source b modified at %lu", fn, (unsigned long)g);
      }
      if (alias != 1) free(a); if (alias != 2 && alias != 3) free(b); free(res); free(a0); free(b0);
    }
  }
  return drv_finish();
}
