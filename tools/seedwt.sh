#!/bin/bash
# usage: seedwt.sh <worktree> <seed_dir> <check args...> : apply the seeded change in a scratch worktree (NOT /repo), point the
# checks at it with VERIF_REPO, undo it straight afterwards.  Used while a background run is reading /repo.
WT=$1; SD=$(realpath $2); shift; shift
cd /verif
git -C $WT checkout -q -- spqlios
git -C $WT apply $SD/patch.diff || exit 2
VERIF_REPO=$WT ./check "$@" --no-evidence 2>/tmp/seedwt.err | grep -E "^(VIOLATION|PASS|FAIL|UNDECIDED|KNOWN)" | cut -c1-300 | head -${SEEDRUN_LINES:-8}
git -C $WT checkout -q -- spqlios
git -C $WT diff --quiet && echo "(worktree restored)"
