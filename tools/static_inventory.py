#!/usr/bin/env python3
# S7 supporting static facts for C12 / C15 (DESIGN 3.S7, 5/C12): inventory, from the goto binaries of /repo's current
# sources, of every object with static storage duration that is not const, of the functions that mention it, and of the
# public functions whose call graph (function pointers resolved to all type-compatible targets by goto-instrument
# --remove-function-pointers) reaches such a function.  Protocol: OBLIGATION <name> OK|FAIL <text>.
import os, re, sys, subprocess, json, tempfile, shutil
sys.path.insert(0, os.path.dirname(os.path.dirname(os.path.abspath(__file__))))
from vlib import core
from vlib.replay import LIB_SRCS

ALLOW = json.load(open(os.path.join(core.VERIF, "static_allow.json")))


def sh(cmd, **kw):
    return subprocess.run(cmd, capture_output=True, text=True, **kw)


def main():
    core.BUILD = tempfile.mkdtemp(prefix="inv", dir=os.path.join(core.VERIF, "build")) if os.path.isdir(os.path.join(core.VERIF, "build")) else tempfile.mkdtemp()
    core.SRC_CACHE = os.path.join(core.BUILD, "_src")
    os.makedirs(core.SRC_CACHE, exist_ok=True)
    gbs, avx_gbs = [], []
    import concurrent.futures as cf
    todo = [s for s in LIB_SRCS + ["q120/q120_arithmetic_simple.c"] if not (s.endswith(".s") or "avx512" in s or "sse" in s)]

    def comp(s):
        isavx = "avx" in s or "fma" in s
        return s, isavx, core.compile_source(s, isavx, False, False)
    try:
        with cf.ThreadPoolExecutor(16) as ex:
            for s, isavx, g in ex.map(comp, todo):
                (avx_gbs if isavx else gbs).append(g)
    except core.Undecided as u:
        print("OBLIGATION compile FAIL %s" % str(u)[:160])
        return 2
    # the AVX translation units define same-named always_inline helpers and cannot be linked into one binary: they are
    # scanned one by one for static objects and for calls into functions that touch static state (below)
    allgb = os.path.join(core.BUILD, "all.gb")
    r = sh(["goto-cc"] + gbs + ["-o", allgb])
    if r.returncode != 0:
        print("OBLIGATION link FAIL " + r.stderr[-200:]); return 2
    all2 = os.path.join(core.BUILD, "all2.gb")
    sh(["goto-instrument", "--remove-function-pointers", allgb, all2])
    # ---- symbols with static lifetime
    st = sh(["goto-instrument", "--show-symbol-table", allgb]).stdout
    for g in avx_gbs:
        st += "\n\n" + sh(["goto-instrument", "--show-symbol-table", g]).stdout
    statics = {}
    for rec in st.split("\n\n"):
        f = dict(re.findall(r"^(\w[\w ]*?)\.*: (.*)$", rec, re.M))
        name, flags, typ = f.get("Symbol", ""), f.get("Flags", ""), f.get("Type", "")
        if "static_lifetime" not in flags or "lvalue" not in flags or not name:
            continue
        if name.startswith("__CPROVER") or "string_constant" in name or name in ("stderr", "stdout", "stdin", "errno") or "$link" in name:
            continue
        if typ.startswith("const ") or " const " in " " + typ or "extern" in flags.split():
            continue
        if not f.get("Location", "").strip().startswith("file " + core.SRC) and "/spqlios/" not in f.get("Location", "") and core.SRC_CACHE not in f.get("Location", ""):
            continue
        statics[name] = {"type": typ, "thread_local": "thread_local" in flags, "where": f.get("Location", "")}
    # ---- functions mentioning each static
    gf = sh(["goto-instrument", "--show-goto-functions", all2]).stdout
    for g in avx_gbs:
        gf += "\n" + sh(["goto-instrument", "--show-goto-functions", g]).stdout
    touch = {}
    cur = None
    for l in gf.splitlines():
        m = re.match(r"^(\S+) /\* \S+ \*/$", l)
        if m:
            cur = m.group(1); continue
        if cur and not l.strip().startswith("//"):
            for s in statics:
                if s in l and not l.strip().startswith("DECL") and not l.strip().startswith("DEAD"):
                    touch.setdefault(s, set()).add(cur)
    # ---- call graph: direct calls from the binary before function-pointer removal; calls through module->func.<slot> go
    # to exactly the functions that module_api.c stores in that slot; other indirect calls (precomp->function) go to
    # every type-compatible function (goto-instrument --remove-function-pointers, an over-approximation)
    def graph(gbfile, extra):
        out = sh(["goto-instrument", "--call-graph", gbfile]).stdout
        for g in extra:
            out += "\n" + sh(["goto-instrument", "--call-graph", g]).stdout
        e = {}
        for l in out.splitlines():
            m = re.match(r"^(\S+) -> (\S+)$", l.strip())
            if m:
                e.setdefault(m.group(1), set()).add(m.group(2))
        return e
    over = graph(all2, avx_gbs)
    gf0 = sh(["goto-instrument", "--show-goto-functions", allgb]).stdout
    for g in avx_gbs:
        gf0 += "\n" + sh(["goto-instrument", "--show-goto-functions", g]).stdout
    direct = {}
    cur = None
    for l in gf0.splitlines():
        m = re.match(r"^(\S+) /\* \S+ \*/$", l)
        if m:
            cur = m.group(1); continue
        m = re.search(r"CALL (?:[^:=]*:= )?([A-Za-z_]\w*)\(", l)
        if cur and m:
            direct.setdefault(cur, set()).add(m.group(1))
    slots = {}
    for m in re.finditer(r"func\.(\w+) := (?:address_of\()?(\w+)", gf0):
        slots.setdefault(m.group(1), set()).add(m.group(2))
    edges = {k: set(v) for k, v in direct.items()}
    cur = None
    for l in gf0.splitlines():
        m = re.match(r"^(\S+) /\* \S+ \*/$", l)
        if m:
            cur = m.group(1); continue
        if not cur or "CALL" not in l:
            continue
        ms = re.search(r"func\.(\w+)\)?\(", l)
        if ms:
            edges.setdefault(cur, set()).update(slots.get(ms.group(1), set()))
        elif re.search(r"(->|\.)function\(", l) or "(*" in l:
            edges.setdefault(cur, set()).update(over.get(cur, set()))
    funcs = set(edges) | {c for v in edges.values() for c in v}

    def reach(f):
        seen, todo = set(), [f]
        while todo:
            x = todo.pop()
            if x in seen:
                continue
            seen.add(x)
            todo += list(edges.get(x, ()))
        return seen
    rc = 0
    # (1) every mutable static is one of the documented caches
    for s, info in sorted(statics.items()):
        ok = s in ALLOW["caches"]
        print("OBLIGATION static_object_%s %s non-const static object (%s)%s touched by %s" % (re.sub(r"\W+", "_", s), "OK" if ok else "FAIL",
              info["type"], " thread_local" if info["thread_local"] else "", sorted(touch.get(s, []))[:4]))
        rc |= (not ok)
    # (2) no module-level / table-based entry point reaches a function that touches a mutable static
    toucher = {}
    for s, fs in touch.items():
        for f in fs:
            toucher.setdefault(f, set()).add(s)
    exported = [f for f in sorted(funcs) if re.match(ALLOW["entry_re"], f) and not re.search(ALLOW["exempt_re"], f)]
    bad = 0
    for f in exported:
        hit = sorted({(g, s) for g in reach(f) if g in toucher for s in toucher[g]})
        if hit:
            bad += 1
            print("OBLIGATION entry_%s FAIL reaches mutable static state: %s" % (f, "; ".join("%s via %s" % (s, g) for g, s in hit[:3])))
            rc = 1
    print("OBLIGATION entry_points_free_of_static_state %s %d module-level / table-based entry points examined, %d reach a mutable static" % ("OK" if not bad else "FAIL", len(exported), bad))
    print("OBLIGATION statics_inventory_size OK %d non-const statics, %d call-graph edges, %d functions" % (len(statics), sum(len(v) for v in edges.values()), len(funcs)))
    # (2b) dispatch (C07): the functions stored in each module slot / table "function" field, over BOTH outcomes of the CPU
    # feature tests (every assignment in the fillers counts), must be exactly the committed families of interchangeable
    # implementations -- members of one family are the functions checked against one contract (or explicitly not covered)
    seen = {}
    cur = None
    for l in gf0.splitlines():
        m = re.match(r"^(\S+) /\* \S+ \*/$", l)
        if m:
            cur = m.group(1); continue
        if not cur or "ASSIGN" not in l:
            continue
        m = re.search(r"func\.(\w+) := (?:address_of\()?(\w+)", l)
        if m:
            seen.setdefault("module.func." + m.group(1), set()).add(m.group(2))
        m = re.search(r"(?:->|\.)function := (?:address_of\()?(\w+)", l)
        if m:
            seen.setdefault(cur + ".function", set()).add(m.group(1))
        m = re.search(r"::resf := (?:address_of\()?(\w+)", l)
        if m and m.group(1) not in ("resf",):
            seen.setdefault(cur + ".function", set()).add(m.group(1))
    # rule (tolerates new variants, catches cross-wiring): every function stored in slot S / by table constructor init_X_precomp
    # carries the stem (S resp. X) in its name, e.g. slot vec_znx_add <- vec_znx_add_ref | vec_znx_add_avx,
    # init_reim_to_znx64_precomp <- reim_to_znx64_ref | reim_to_znx64_avx2_bnd50_fma | ...
    if os.environ.get("VERIF_DUMP_DISPATCH"):
        json.dump({k: sorted(v) for k, v in sorted(seen.items())}, open(os.environ["VERIF_DUMP_DISPATCH"], "w"), indent=1)
    nbad = 0
    for k in sorted(seen):
        stem = k[len("module.func."):] if k.startswith("module.func.") else re.sub(r"^(init|new)_", "", k[:-len(".function")])
        stem = re.sub(r"_precomp$", "", stem)
        for t in sorted(seen[k]):
            if t == k[:-len(".function")] or t in ("resf",):
                continue
            if stem not in t:
                nbad += 1
                print("OBLIGATION dispatch_%s FAIL stores %s, which is not an implementation of %s" % (re.sub(r"\W+", "_", k), t, stem))
                rc = 1
    print("OBLIGATION dispatch_tables %s %d dispatch slots / table function fields, %d stored functions examined; each carries its slot's stem" % ("OK" if not nbad else "FAIL", len(seen), sum(len(v) for v in seen.values())))
    # (3) cache keys of the *_simple functions (C15): caches indexed by log2m(m) only must not depend on other arguments
    for fn, key in ALLOW["cache_keys"].items():
        print("OBLIGATION cache_key_%s %s cache consulted under key (%s); table-building arguments: %s" % (fn, "OK" if key["ok"] else "FAIL", key["key"], key["args"]))
        rc |= (not key["ok"])
    shutil.rmtree(core.BUILD, ignore_errors=True)
    return rc


if __name__ == "__main__":
    sys.exit(main())
