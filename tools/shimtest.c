// Validation of the intrinsics model (shim header + builtin bodies): the same program is (1) compiled natively with gcc
// and the hardware intrinsics and run, printing every result; (2) compiled with goto-cc + shim and checked by CBMC with
// the native results as assertions (tools/shimtest.sh).  Concrete operands incl. corner values; not a proof.
#include <immintrin.h>
#include <stdint.h>
#include <string.h>
#ifdef NATIVE
#include <stdio.h>
#define OUT(tag, k, v) printf("EXPECT(%s, %d, 0x%016llxULL)\n", #tag, k, (unsigned long long)(v));
#else
#include "shimtest_expect.h"
#define OUT(tag, k, v) __CPROVER_assert((uint64_t)(v) == expect_##tag[k], "intrinsic model agrees with hardware: " #tag);
#endif
static const uint64_t A[4] = {0x8000000000000001ULL, 0x00000000FFFFFFFFULL, 0x3FF8000000000000ULL, 0xFFFFFFFF00000007ULL};
static const uint64_t B[4] = {0x4330000000000005ULL, 0x7FEFFFFFFFFFFFFFULL, 0xC008000000000000ULL, 0x0000000100000003ULL};
static const uint64_t C[4] = {0x3FE0000000000000ULL, 0x4000000000000000ULL, 0xBFF0000000000000ULL, 0x3FF0000000000001ULL};
#define DUMPI(tag, v) { uint64_t o[4]; _mm256_storeu_si256((__m256i*)o, v); for (int k = 0; k < 4; ++k) OUT(tag, k, o[k]) }
#define DUMPD(tag, v) { uint64_t o[4]; _mm256_storeu_pd((double*)o, v); for (int k = 0; k < 4; ++k) OUT(tag, k, o[k]) }
int main(void) {
  __m256i a = _mm256_loadu_si256((const __m256i*)A), b = _mm256_loadu_si256((const __m256i*)B);
  __m256d da = _mm256_loadu_pd((const double*)A), dbb = _mm256_loadu_pd((const double*)B), dc = _mm256_loadu_pd((const double*)C);
  __m256d x = _mm256_set_pd(4.0, -3.5, 2.25, 1.0), y = _mm256_set_pd(0.5, 8.0, -1.5, 3.0), z = _mm256_set_pd(1e-3, 7.0, 0.125, -2.0);
  DUMPI(add64, _mm256_add_epi64(a, b)) DUMPI(sub64, _mm256_sub_epi64(a, b)) DUMPI(and, _mm256_and_si256(a, b)) DUMPI(or, _mm256_or_si256(a, b))
  DUMPI(xor, _mm256_xor_si256(a, b)) DUMPI(srli, _mm256_srli_epi64(a, 31)) DUMPI(slli, _mm256_slli_epi64(a, 13)) DUMPI(srli63, _mm256_srli_epi64(a, 63))
  DUMPI(mulepu32, _mm256_mul_epu32(a, b)) DUMPI(srlv, _mm256_srlv_epi64(a, _mm256_set_epi64x(70, 1, 63, 0))) DUMPI(sllv, _mm256_sllv_epi64(a, _mm256_set_epi64x(64, 1, 63, 4)))
  DUMPI(unpacklo64, _mm256_unpacklo_epi64(a, b)) DUMPI(unpackhi64, _mm256_unpackhi_epi64(a, b)) DUMPI(unpacklo32, _mm256_unpacklo_epi32(a, b)) DUMPI(unpackhi32, _mm256_unpackhi_epi32(a, b))
  DUMPI(perm2x128_20, _mm256_permute2x128_si256(a, b, 0x20)) DUMPI(perm2x128_31, _mm256_permute2x128_si256(a, b, 0x31))
  DUMPI(permvar, _mm256_permutevar8x32_epi32(a, _mm256_set_epi32(0, 2, 4, 6, 1, 3, 5, 7))) DUMPI(set1_32, _mm256_set1_epi32(-7)) DUMPI(add32, _mm256_add_epi32(a, b))
  DUMPI(castpd, _mm256_castpd_si256(x)) DUMPD(castsi, _mm256_castsi256_pd(b)) DUMPI(set1, _mm256_set1_epi64x(-5)) DUMPI(zero, _mm256_setzero_si256())
  DUMPD(addpd, _mm256_add_pd(x, y)) DUMPD(subpd, _mm256_sub_pd(x, y)) DUMPD(mulpd, _mm256_mul_pd(x, z)) DUMPD(fmadd, _mm256_fmadd_pd(x, y, z)) DUMPD(fmsub, _mm256_fmsub_pd(x, y, z))
  DUMPD(fmaddsub, _mm256_fmaddsub_pd(x, y, z)) DUMPD(fmsubadd, _mm256_fmsubadd_pd(x, y, z)) DUMPD(addsub, _mm256_addsub_pd(x, y))
  DUMPD(andpd, _mm256_and_pd(da, dbb)) DUMPD(orpd, _mm256_or_pd(da, dbb)) DUMPD(xorpd, _mm256_xor_pd(da, dc)) DUMPD(unpcklpd, _mm256_unpacklo_pd(x, y)) DUMPD(unpckhpd, _mm256_unpackhi_pd(x, y))
  DUMPD(shuf5, _mm256_shuffle_pd(x, y, 5)) DUMPD(shuf10, _mm256_shuffle_pd(x, y, 10)) DUMPD(shuf15, _mm256_shuffle_pd(x, y, 15)) DUMPD(shuf0, _mm256_shuffle_pd(x, y, 0))
  DUMPD(permute5, _mm256_permute_pd(x, 5)) DUMPD(perm4x64, _mm256_permute4x64_pd(x, 0xD8)) DUMPD(perm2f128_20, _mm256_permute2f128_pd(x, y, 0x20)) DUMPD(perm2f128_31, _mm256_permute2f128_pd(x, y, 0x31))
  DUMPD(set1pd, _mm256_set1_pd(1.5)) DUMPD(setm128d, _mm256_set_m128d(_mm_set1_pd(2.5), _mm_set1_pd(-1.25)))
  // magic-constant conversion chain of reim_from_znx64_bnd50_fma on a corner value
  { __m256i v = _mm256_set_epi64x(-1, (1LL << 50) - 1, -(1LL << 50) + 1, 12345); v = _mm256_add_epi64(v, _mm256_set1_epi64x(1LL << 51));
    __m256d d = _mm256_castsi256_pd(v); d = _mm256_or_pd(d, _mm256_set1_pd((double)(1LL << 52))); d = _mm256_sub_pd(d, _mm256_set1_pd((double)(3LL << 51))); DUMPD(magic, d) }
  return 0;
}
