#!/bin/sh
# builds and runs lemmas/q120_ntt_tables.c against /repo's current sources (S5)
R=${VERIF_REPO:-/repo}
D=$(mktemp -d)
gcc -O1 -DNDEBUG -I$R/spqlios "$(dirname "$0")/../lemmas/q120_ntt_tables.c" $R/spqlios/q120/q120_ntt.c $R/spqlios/commons.c $R/spqlios/commons_private.c -lm -o $D/qt 2>$D/err || { echo "OBLIGATION ntt_tables_wf FAIL build failed: $(head -c 200 $D/err)"; rm -rf $D; exit 2; }
$D/qt; rc=$?; rm -rf $D; exit $rc
