#!/usr/bin/env python3
# C15 / C11 / C07 supporting static fact (S7, not a proof): "results do not depend on the byte alignment of the caller's
# buffers".  Inventory, on /repo's current sources, of everything through which an address's alignment can influence a result
# or a fault:
#   (a) aligned-access intrinsics (_mm*_load_*/_store_*/_stream_* without the `u`): allowed only as LOADS whose address is a
#       precomputed twiddle table (expression over om/omg/omga: the constructors allocate those with 32/64-byte alignment);
#       an aligned STORE, or an aligned load of any other expression, is an obligation failure;
#   (b) control flow or arithmetic on the alignment of a pointer (a pointer converted to an integer and masked / reduced by
#       8..64), outside comments and outside the allocation helpers of commons.c;
#   (c) aligned vector moves in the assembly kernels (vmovapd/vmovaps/vmovdqa/movapd/movaps/movdqa/vmovntpd...).
# Protocol: OBLIGATION <name> OK|FAIL <text>.  x86 sources only (the NEON file is not built here).
import os, re, sys
REPO = os.environ.get("VERIF_REPO", "/repo")
SRC = os.path.join(REPO, "spqlios")
ALIGNED = re.compile(r"\b(_mm(?:256|512)?_(?:mask_|maskz_)?(load|store|stream)_(?:pd|ps|si128|si256|si512|epi32|epi64|sd|ss))\s*\(")
TABLE_ARG = re.compile(r"^\s*\(?\s*\*?\s*\(?\s*\*?\s*om[a-z]*\s*\)?\s*(\[[^\]]*\]\s*)*\)?\s*(\[[^\]]*\]\s*)*$")
PTRINT = re.compile(r"\(\s*(?:uintptr_t|intptr_t|size_t|uint64_t|unsigned long|long)\s*\)\s*\(?\s*[A-Za-z_][\w\->\.\[\]]*\s*\)?\s*(?:%|&)\s*(?:0x)?(?:7|8|15|16|31|32|63|64|0x0*[137]?[fF])\b")
ASM = re.compile(r"\b(v?mov(?:apd|aps|dqa|dqa32|dqa64|ntpd|ntps|ntdq))\b")


def strip_comments(text):
    text = re.sub(r"/\*.*?\*/", lambda m: re.sub(r"[^\n]", " ", m.group(0)), text, flags=re.S)
    return re.sub(r"//[^\n]*", "", text)


def arg_of(text, start):
    depth, i = 1, start
    while i < len(text) and depth:
        depth += text[i] == "("
        depth -= text[i] == ")"
        i += 1
    return text[start:i - 1]


def main():
    sites, bad, ctl, asm = [], [], [], []
    nfiles = 0
    for root, _, files in os.walk(SRC):
        for f in sorted(files):
            p = os.path.join(root, f)
            rel = os.path.relpath(p, SRC)
            if "neon" in f or "aarch64" in f:
                continue
            if f.endswith((".c", ".h")):
                nfiles += 1
                text = strip_comments(open(p, errors="replace").read())
                for m in ALIGNED.finditer(text):
                    if m.group(1).endswith(("_sd", "_ss")):
                        continue   # scalar loads have no alignment requirement
                    arg = arg_of(text, m.end()).split(",")[0]
                    line = text.count("\n", 0, m.start()) + 1
                    ok = m.group(2) == "load" and TABLE_ARG.match(re.sub(r"%", "0", arg)) is not None
                    sites.append((rel, line, m.group(1), arg.strip(), ok))
                    if not ok:
                        bad.append("%s:%d %s(%s)" % (rel, line, m.group(1), arg.strip()[:40]))
                if rel != "commons.c":
                    for m in PTRINT.finditer(text):
                        ctl.append("%s:%d %s" % (rel, text.count("\n", 0, m.start()) + 1, m.group(0)[:60]))
            elif f.endswith((".s", ".S")):
                nfiles += 1
                for n, l in enumerate(open(p, errors="replace"), 1):
                    l = l.split("#")[0]
                    m = ASM.search(l)
                    if m:
                        asm.append("%s:%d %s" % (rel, n, l.strip()[:60]))
    print("OBLIGATION aligned_access_only_on_precomputed_tables %s %d aligned-access intrinsic sites in %d files, %d are not loads of a twiddle table%s"
          % ("OK" if not bad else "FAIL", len(sites), nfiles, len(bad), (": " + "; ".join(bad[:4])) if bad else ""))
    print("OBLIGATION no_computation_on_pointer_alignment %s %d places convert a pointer to an integer and reduce it modulo an alignment%s"
          % ("OK" if not ctl else "FAIL", len(ctl), (": " + "; ".join(ctl[:4])) if ctl else ""))
    print("OBLIGATION no_aligned_moves_in_assembly_kernels %s %d aligned / non-temporal vector moves in the .s kernels%s"
          % ("OK" if not asm else "FAIL", len(asm), (": " + "; ".join(asm[:4])) if asm else ""))
    return 1 if (bad or ctl or asm) else 0


if __name__ == "__main__":
    sys.exit(main())
