#!/bin/sh
# builds and runs lemmas/q120_h.c against /repo's current sources (S5): table invariant of the b*c product
R=${VERIF_REPO:-/repo}
D=$(mktemp -d)
gcc -O1 -DNDEBUG -I$R/spqlios "$(dirname "$0")/../lemmas/q120_h.c" $R/spqlios/q120/q120_arithmetic_ref.c -lm -o $D/qh 2>$D/err || { echo "OBLIGATION bbc_table_wf FAIL build failed: $(head -c 200 $D/err)"; rm -rf $D; exit 2; }
$D/qh | grep OBLIGATION; rm -rf $D
