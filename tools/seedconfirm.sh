#!/bin/bash
# usage: seedconfirm.sh <worktree> <seed_dir>   -- confirm a seeded change: tests pass + demo fails with it, demo passes without
WT=$1; SD=$2
cd $WT || exit 2
git checkout -q -- spqlios
git apply $SD/patch.diff || { echo "PATCH-APPLY-FAILED"; exit 2; }
cmake --build _build >/dev/null 2>&1 || { echo "BUILD-FAILED"; git checkout -q -- spqlios; exit 2; }
T=$(ctest --test-dir _build -j8 --timeout 900 2>&1 | grep -E "tests passed|tests failed" | head -1)
N=$(./_build/test/spqlios-test 2>&1 | grep -E "^\[  PASSED  \]|^\[  FAILED  \]" | head -2 | tr '\n' ' ')
gcc -O1 -I$WT/spqlios $SD/demo.c $WT/_build/spqlios/libspqlios.a -lm -o $WT/_seed_demo 2>/dev/null || gcc -O1 -mavx2 -mfma -I$WT/spqlios $SD/demo.c $WT/_build/spqlios/libspqlios.a -lm -o $WT/_seed_demo
$WT/_seed_demo >$WT/_seed_demo.out 2>&1; D1=$?
git checkout -q -- spqlios
cmake --build _build >/dev/null 2>&1
gcc -O1 -I$WT/spqlios $SD/demo.c $WT/_build/spqlios/libspqlios.a -lm -o $WT/_seed_demo 2>/dev/null || gcc -O1 -mavx2 -mfma -I$WT/spqlios $SD/demo.c $WT/_build/spqlios/libspqlios.a -lm -o $WT/_seed_demo
$WT/_seed_demo >/dev/null 2>&1; D0=$?
echo "with-change: ctest='$T' gtest='$N' demo_exit=$D1 ; without: demo_exit=$D0"
