#!/bin/sh
# native run -> expected values -> CBMC check of the shim model
set -e
cd "$(dirname "$0")"
W=$(mktemp -d)
gcc -O1 -mavx2 -mfma -DNATIVE shimtest.c -o $W/native
$W/native > $W/expect.txt
python3 - $W/expect.txt $W/shimtest_expect.h <<'PY'
import sys,re,collections
d=collections.OrderedDict()
for l in open(sys.argv[1]):
    m=re.match(r"EXPECT\((\w+), (\d+), (\w+)\)",l)
    d.setdefault(m.group(1),{})[int(m.group(2))]=m.group(3)
with open(sys.argv[2],"w") as f:
    for t,v in d.items(): f.write("static const unsigned long long expect_%s[4] = {%s};\n"%(t,", ".join(v[k] for k in range(4))))
PY
goto-cc -mavx2 -mfma -isystem ../shim -I../shim -I$W shimtest.c ../shim/builtins.c -o $W/st.gb
cbmc $W/st.gb --unwind 9 --no-signed-overflow-check > $W/out.txt 2>&1 || true
N=$(grep -c "agrees with hardware.*SUCCESS" $W/out.txt || true); F=$(grep -c "agrees with hardware.*FAILURE" $W/out.txt || true)
grep "FAILURE" $W/out.txt | head -20 || true
echo "shimtest: $N lane results agree, $F disagree"
rm -rf $W
[ "$F" = "0" ] && [ "$N" -gt 40 ]
