#!/usr/bin/env python3
# builds the real library from /repo's working tree and runs lemmas/module_wf.c against it (S5)
import os, subprocess, sys, tempfile, shutil
sys.path.insert(0, os.path.join(os.path.dirname(os.path.abspath(__file__)), ".."))
from vlib import core, replay
d = tempfile.mkdtemp(prefix="modwf", dir=os.path.join(core.VERIF, "build") if os.path.isdir(os.path.join(core.VERIF, "build")) else None)
try:
    objs, errs = replay.build_native_lib(d, asan=False)
    if errs:
        print("OBLIGATION constructor_establishes_wf_module FAIL library build failed: " + errs[0][:200]); sys.exit(2)
    exe = os.path.join(d, "modwf")
    r = subprocess.run(["gcc", "-O1", "-DNDEBUG", "-I" + core.SRC, os.path.join(core.VERIF, "lemmas", "module_wf.c")] + objs + ["-lm", "-o", exe], capture_output=True, text=True)
    if r.returncode != 0:
        print("OBLIGATION constructor_establishes_wf_module FAIL harness build failed: " + r.stderr[-300:]); sys.exit(2)
    r = subprocess.run([exe], capture_output=True, text=True, timeout=600)
    sys.stdout.write(r.stdout)
    sys.exit(0 if r.returncode in (0, 1) else 2)
finally:
    shutil.rmtree(d, ignore_errors=True)
