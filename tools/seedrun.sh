#!/bin/bash
# usage: seedrun.sh <seed_dir> <check args...> : apply the seeded change to /repo, run ./check, undo it straight afterwards
SD=$1; shift
cd /verif
git -C /repo diff --quiet || { echo "/repo not clean"; exit 2; }
git -C /repo apply $(realpath $SD)/patch.diff || exit 2
./check "$@" --no-evidence 2>/tmp/seedrun.err | grep -E "^(VIOLATION|PASS|FAIL|UNDECIDED|KNOWN)" | cut -c1-260 | head -${SEEDRUN_LINES:-8}
git -C /repo checkout -- .
git -C /repo diff --quiet && echo "(repo restored)"
