// S5: runs the REAL table constructors natively and prints the values the contracts take as wf(precomp)
#include <stdio.h>
#include "q120/q120_arithmetic.h"
#include "q120/q120_arithmetic_private.h"
#include "q120/q120_common.h"
int main(void) {
  q120_mat1col_product_bbc_precomp* c = q120_new_vec_mat1col_product_bbc_precomp();
  q120_mat1col_product_baa_precomp* a = q120_new_vec_mat1col_product_baa_precomp();
  q120_mat1col_product_bbb_precomp* b = q120_new_vec_mat1col_product_bbb_precomp();
  printf("BBC_H %lu\nBAA_H %lu\nBBB_H %lu\n", c->h, a->h, b->h);
  const uint32_t q[4] = {Q1, Q2, Q3, Q4};
  for (int k = 0; k < 4; ++k) printf("BBC_P %d %lu %lu %u\n", k, c->s2l_pow_red[k], c->s2h_pow_red[k], q[k]);
  int ok = 1;
  for (int k = 0; k < 4; ++k) ok &= c->s2l_pow_red[k] == (uint64_t)((((unsigned __int128)1) << 32) % q[k]) && c->s2h_pow_red[k] == (uint64_t)((((unsigned __int128)1) << (32 + c->h)) % q[k]);
  printf("OBLIGATION bbc_table_wf %s s2l_pow_red == 2^32 mod q, s2h_pow_red == 2^(32+h) mod q, h=%lu (real constructor, this machine)\n", ok ? "OK" : "FAIL", c->h);
  // a*a and b*b tables: the well-formedness the range contracts baa_ref__c / bbb_ref__c take as preconditions
  typedef unsigned __int128 u128;
  int oka = 1, okb = 1;
  for (int k = 0; k < 4; ++k) oka &= a->h_pow_red[k] == (uint64_t)((((u128)1) << a->h) % q[k]);
  printf("OBLIGATION baa_table_wf %s h_pow_red == 2^h mod q, h=%lu (real constructor)\n", oka ? "OK" : "FAIL", a->h);
  for (int k = 0; k < 4; ++k) {
    okb &= b->s1h_pow_red[k] == ((uint64_t)1 << b->h);
    okb &= b->s2l_pow_red[k] == (uint64_t)((((u128)1) << 32) % q[k]) && b->s2h_pow_red[k] == (uint64_t)((((u128)1) << (32 + b->h)) % q[k]);
    okb &= b->s3l_pow_red[k] == (uint64_t)((((u128)1) << 64) % q[k]) && b->s3h_pow_red[k] == (uint64_t)((((u128)1) << (64 + b->h)) % q[k]);
    okb &= b->s4l_pow_red[k] == (uint64_t)((((u128)1) << 96) % q[k]) && b->s4h_pow_red[k] == (uint64_t)((((u128)1) << (96 + b->h)) % q[k]);
  }
  printf("OBLIGATION bbb_table_wf %s s1h == 2^h, s2l..s4h == 2^(32|64|96 [+h]) mod q, h=%lu (real constructor)\n", okb ? "OK" : "FAIL", b->h);
  // AVX2 a*a product: the final _mm256_mul_epu32(acc2, H_POW_RED) multiplies the LOW 32 bits of each lane: with
  // acc2 <= MAX_ELL * (2^(64-h) - 1) (the bound proved for the reference loop, same recurrence) nothing is truncated iff this fits 32 bits
  u128 acc2max = (u128)MAX_ELL * ((((u128)1) << (64 - a->h)) - 1);
  int okt = acc2max < (((u128)1) << 32);
  for (int k = 0; k < 4; ++k) okt &= a->h_pow_red[k] < ((uint64_t)1 << 32);
  printf("OBLIGATION baa_avx2_mul_epu32_operands_fit_32_bits %s MAX_ELL*(2^(64-h)-1) = %lu and h_pow_red below 2^32 (h=%lu)\n", okt ? "OK" : "FAIL", (uint64_t)acc2max, a->h);
  return 0;
}
