// S5: runs the REAL table constructors natively and prints the values the contracts take as wf(precomp)
#include <stdio.h>
#include "q120/q120_arithmetic.h"
#include "q120/q120_arithmetic_private.h"
#include "q120/q120_common.h"
int main(void) {
  q120_mat1col_product_bbc_precomp* c = q120_new_vec_mat1col_product_bbc_precomp();
  q120_mat1col_product_baa_precomp* a = q120_new_vec_mat1col_product_baa_precomp();
  q120_mat1col_product_bbb_precomp* b = q120_new_vec_mat1col_product_bbb_precomp();
  printf("BBC_H %lu\nBAA_H %lu\nBBB_H %lu\n", c->h, a->h, b->h);
  const uint32_t q[4] = {Q1, Q2, Q3, Q4};
  for (int k = 0; k < 4; ++k) printf("BBC_P %d %lu %lu %u\n", k, c->s2l_pow_red[k], c->s2h_pow_red[k], q[k]);
  int ok = 1;
  for (int k = 0; k < 4; ++k) ok &= c->s2l_pow_red[k] == (uint64_t)((((unsigned __int128)1) << 32) % q[k]) && c->s2h_pow_red[k] == (uint64_t)((((unsigned __int128)1) << (32 + c->h)) % q[k]);
  printf("OBLIGATION bbc_table_wf %s s2l_pow_red == 2^32 mod q, s2h_pow_red == 2^(32+h) mod q, h=%lu (real constructor, this machine)\n", ok ? "OK" : "FAIL", c->h);
  return 0;
}
