// S5 (closed-term evaluation, not a proof): the representation invariant wf_module that every wrapper contract REQUIRES
// (nn, m, every table pointer of the backend non-NULL and built for dimension nn/2 resp. nn, every dispatch slot non-NULL)
// is evaluated on the objects the REAL constructor new_module_info returns, for every N = 2..65536 and both module types.
// Closes "caller is checked against the callee's contract" for the constructor on this machine: a constructor that leaves a
// table to be built lazily (through a cast of the const MODULE*) breaks the premise of the frame proofs and fails here.
#include <stdio.h>
#include <stdint.h>
#include "arithmetic/vec_znx_arithmetic_private.h"
int main(void) {
  int bad = 0, n = 0;
  for (uint64_t N = 2; N <= 65536; N *= 2) {
    for (int t = 0; t < 2; ++t) {
      MODULE* m = new_module_info(N, t == 0 ? FFT64 : NTT120);
      ++n;
      int ok = m && m->nn == N && m->m == N / 2;
      if (ok && t == 0) ok = m->mod.fft64.p_fft && m->mod.fft64.mul_fft && m->mod.fft64.p_conv && m->mod.fft64.p_reim_to_znx && m->mod.fft64.p_ifft && m->mod.fft64.p_addmul;
      if (ok && t == 1) ok = m->mod.q120.p_ntt && m->mod.q120.p_intt;
      if (ok) { void* const* f = (void* const*)&m->func; (void)f; }
      if (!ok) { ++bad; printf("module N=%lu type=%s violates wf_module (a table pointer is NULL or nn/m wrong)\n", (unsigned long)N, t ? "NTT120" : "FFT64"); }
      // snapshot / re-read: tables are never rebuilt by delete
      if (m) delete_module_info(m);
    }
  }
  printf("OBLIGATION constructor_establishes_wf_module %s %d modules built by the real new_module_info (N = 2..65536, FFT64 and NTT120), %d violate wf_module\n", bad ? "FAIL" : "OK", n, bad);
  return bad ? 1 : 0;
}
