#!/usr/bin/env python3
# S6 integer lemmas for C10 (DESIGN 3.S6): statements over mathematical integers about the EXPRESSIONS that the CBMC
# contracts tie to the machine words of q120_arithmetic_simple.c, with the constants of the real header.  Discharged by
# z3 (linear integer arithmetic: every mod/div has a constant modulus).  Output protocol: OBLIGATION <name> OK|FAIL <text>.
import subprocess, sys, os, tempfile
repo = os.environ.get("VERIF_REPO", "/repo")
here = os.path.dirname(os.path.abspath(__file__))
tmp = tempfile.mkdtemp()
exe = os.path.join(tmp, "consts")
subprocess.check_call(["gcc", "-I" + os.path.join(repo, "spqlios"), os.path.join(here, "q120_consts.c"), "-o", exe])
vals = {}
for l in subprocess.check_output([exe], text=True).splitlines():
    k, *v = l.split()
    vals[k] = [int(t) for t in v]
qs, crt = vals["Q"], vals["CRT"]
Q = qs[0] * qs[1] * qs[2] * qs[3]
Qm = [Q // q for q in qs]
OQ = [q - ((1 << 63) % q) for q in qs]


def z3(name, text, smt):
    f = os.path.join(tmp, name + ".smt2")
    open(f, "w").write(smt)
    try:
        out = subprocess.run([("z3-new" if __import__("shutil").which("z3-new") else "z3"), "-T:120", f], capture_output=True, text=True, timeout=150).stdout.strip()
    except subprocess.TimeoutExpired:
        out = "timeout"
    print("OBLIGATION %s %s %s" % (name, "OK" if out == "unsat" else "FAIL", text + ("" if out == "unsat" else " [z3: %s]" % out[:60])))


def crt_sum(lanes):
    # lanes: smt terms of the four lane values (any non-negative integers)
    return "(mod (+ %s) %d)" % (" ".join("(* (mod (* (mod %s %d) %d) %d) %d)" % (lanes[k], qs[k], crt[k], qs[k], Qm[k]) for k in range(4)), Q)


center = lambda t: "(ite (>= %s %d) (- %s %d) %s)" % (t, (Q + 1) // 2, t, Q, t)
# L0: constants: pairwise distinct odd primes product, Q odd, |int64| < Q/2
print("OBLIGATION q120_consts_Q_exceeds_2_64 %s 2^63 < Q/2 so every int64 has a centered representative" % ("OK" if (1 << 63) < Q // 2 else "FAIL"))
print("OBLIGATION q120_consts_crt_inverse %s (Q/q_k)*CRT_k == 1 mod q_k for the header's constants" % ("OK" if all((Qm[k] % qs[k]) * crt[k] % qs[k] == 1 for k in range(4)) else "FAIL"))
print("OBLIGATION q120_consts_offset %s q_k - (2^63 mod q_k) + 2^63 == 0 mod q_k" % ("OK" if all(((1 << 63) + OQ[k]) % qs[k] == 0 for k in range(4)) else "FAIL"))
# L1: int64 -> b -> int128 is the identity on all of int64
lanes = ["(+ xlo (* s %d))" % OQ[k] for k in range(4)]
z3("q120_int64_b_int128_identity", "for every int64 x: center(CRT(b_from_znx64(x))) == x",
   "(declare-const x Int)\n(assert (and (>= x (- %d)) (< x %d)))\n(define-fun s () Int (ite (< x 0) 1 0))\n(define-fun xlo () Int (ite (< x 0) (+ x %d) x))\n(assert (not (= %s x)))\n(check-sat)\n"
   % (1 << 63, 1 << 63, 1 << 63, center(crt_sum(lanes))))
# L2: b_from_znx64 lanes are congruent to x
for k in range(4):
    z3("q120_b_from_znx64_congruent_lane%d" % k, "xlo + sign*(q-2^63 mod q) == x mod q_%d" % (k + 1),
       "(declare-const x Int)\n(assert (and (>= x (- %d)) (< x %d)))\n(define-fun s () Int (ite (< x 0) 1 0))\n(define-fun xlo () Int (ite (< x 0) (+ x %d) x))\n(assert (not (= (mod (+ xlo (* s %d)) %d) (mod x %d))))\n(check-sat)\n"
       % (1 << 63, 1 << 63, 1 << 63, OQ[k], qs[k], qs[k]))
# L3: b -> int128 returns THE centered representative: congruent to each (unreduced, any 64-bit) lane and inside (-Q/2, Q/2)
for k in range(4):
    z3("q120_b_to_znx128_congruent_lane%d" % k, "center(CRT sum) == lane_%d mod q_%d for all 64-bit lanes" % (k, k + 1),
       "\n".join("(declare-const l%d Int)\n(assert (and (>= l%d 0) (< l%d %d)))" % (j, j, j, 1 << 64) for j in range(4)) +
       "\n(assert (not (= (mod %s %d) (mod l%d %d))))\n(check-sat)\n" % (center(crt_sum(["l0", "l1", "l2", "l3"])), qs[k], k, qs[k]))
# L4: add_bbb: sum of the two reduced lanes is congruent to the sum and does not wrap 64 bits
for k in range(4):
    z3("q120_add_bbb_lane%d" % k, "x mod (q<<33) + y mod (q<<33) < 2^64 and == x + y mod q_%d" % (k + 1),
       "(declare-const x Int)(declare-const y Int)\n(assert (and (>= x 0) (< x %d) (>= y 0) (< y %d)))\n(define-fun r () Int (+ (mod x %d) (mod y %d)))\n(assert (not (and (< r %d) (= (mod r %d) (mod (+ x y) %d)))))\n(check-sat)\n"
       % (1 << 64, 1 << 64, qs[k] << 33, qs[k] << 33, 1 << 64, qs[k], qs[k]))

# L5 (C04/C10): the split product is congruent to x*t once the table invariant t1 == t*2^h mod q holds (checked on the
# real tables by lemmas/q120_ntt_tables.c).  Non-linear integer arithmetic (products of variables): z3's nonlinear engine.
for k in range(4):
    z3("q120_split_product_congruent_lane%d" % k, "(x mod 2^h)*t + (x div 2^h)*t1 == x*t (mod q_%d) whenever t1 == t*2^h (mod q)" % (k + 1),
       "(declare-const xl Int)(declare-const xh Int)(declare-const t Int)(declare-const t1 Int)(declare-const p Int)(declare-const m Int)\n"
       "(assert (and (>= xl 0) (>= xh 0) (>= t 0) (>= t1 0) (>= p 1)))\n"
       "(assert (= (* t p) (+ t1 (* m %d))))   ; t1 == t*p (mod q), witness m, p stands for 2^h\n"
       "(declare-const d Int)\n"
       "(assert (= d (- (* (+ xl (* xh p)) t) (+ (* xl t) (* xh t1)))))   ; x*t - split product\n"
       "(assert (not (= d (* (* xh m) %d))))   ; ... is the multiple xh*m of q\n(check-sat)\n" % (qs[k], qs[k]))

# L6/L7 (C10/C04, reference b*c product): with the table invariant P1 == 2^32, P2 == 2^(32+h) (mod q) the recombination is
# congruent to the exact accumulator value, and each step term is congruent to x*y for a layout-c operand (y_hi == y_lo*2^32).
for k in range(4):
    z3("q120_bbc_recombination_congruent_lane%d" % k, "s0 + (s1 mod 2^h)*P1 + (s1 div 2^h)*P2 == s0 + 2^32*s1 (mod q_%d) when P1 == 2^32, P2 == 2^32*2^h (mod q)" % (k + 1),
       "(declare-const s0 Int)(declare-const sl Int)(declare-const sh Int)(declare-const p Int)(declare-const P1 Int)(declare-const P2 Int)(declare-const m1 Int)(declare-const m2 Int)\n"
       "(assert (and (>= s0 0) (>= sl 0) (>= sh 0) (>= p 1)))\n"
       "(assert (= %d (+ P1 (* m1 %d))))            ; P1 == 2^32 (mod q)\n"
       "(assert (= (* %d p) (+ P2 (* m2 %d))))      ; P2 == 2^32 * p (mod q), p stands for 2^h\n"
       "(declare-const d Int)\n(assert (= d (- (+ s0 (* %d (+ sl (* sh p)))) (+ s0 (* sl P1) (* sh P2)))))\n"
       "(assert (not (= d (* %d (+ (* sl m1) (* sh m2))))))\n(check-sat)\n" % (1 << 32, qs[k], 1 << 32, qs[k], 1 << 32, qs[k]))
    z3("q120_bbc_term_congruent_lane%d" % k, "x_lo*y_lo + x_hi*y_hi == (x_lo + 2^32*x_hi)*y_lo (mod q_%d) when y_hi == y_lo*2^32 (mod q)" % (k + 1),
       "(declare-const xl Int)(declare-const xh Int)(declare-const yl Int)(declare-const yh Int)(declare-const m Int)\n"
       "(assert (= (* yl %d) (+ yh (* m %d))))\n(declare-const d Int)\n"
       "(assert (= d (- (* (+ xl (* %d xh)) yl) (+ (* xl yl) (* xh yh)))))\n(assert (not (= d (* (* xh m) %d))))\n(check-sat)\n" % (1 << 32, qs[k], 1 << 32, qs[k]))
