// S5 (closed-term evaluation on this machine, not a proof): the twiddle tables the REAL constructors build satisfy the
// representation invariant the lane obligations assume: every word w = (t1<<32)|t has t < q_k and t1 == t*2^half_bs mod q_k,
// for every n = 2^1..2^16, forward and inverse; reduction constants are 2^h mod q_k; q2bs[k] == q_k << shift.
#include <stdio.h>
#include <stdint.h>
#include "q120/q120_ntt.h"
#include "q120/q120_ntt_private.h"
#include "q120/q120_common.h"
int main(void) {
  const uint32_t Q[4] = {Q1, Q2, Q3, Q4};
  long bad = 0, words = 0;
  for (int lg = 1; lg <= 16; ++lg) for (int inv = 0; inv < 2; ++inv) {
    uint64_t n = 1ull << lg;
    q120_ntt_precomp* p = inv ? q120_new_intt_bb_precomp(n) : q120_new_ntt_bb_precomp(n);
    const uint64_t* w = p->powomega;
    // slices: forward: level 0 has n vectors, then levels nn=n..4 have nn/2-1 vectors; inverse: levels nn=4..n have nn/2-1, last has n
    int nl = lg + 1;
    for (int l = 0; l < nl; ++l) {
      const q120_ntt_step_precomp* m = p->level_metadata + l;
      uint64_t cnt;
      if (!inv) cnt = (l == 0) ? n : ((l == nl - 1) ? 0 : ((n >> (l - 1)) / 2 - 1));
      else cnt = (l == 0) ? 0 : ((l == nl - 1) ? n : ((4ull << (l - 1)) / 2 - 1));
      for (uint64_t i = 0; i < cnt; ++i) for (int k = 0; k < 4; ++k) {
        uint64_t x = w[4 * i + k], t = x & 0xFFFFFFFFu, t1 = x >> 32;
        ++words;
        if (!(t < Q[k] && t1 == (uint64_t)((((unsigned __int128)t) << m->half_bs) % Q[k]))) ++bad;
      }
      w += 4 * cnt;
      for (int k = 0; k < 4; ++k) if (!(!inv && l == 0) && m->q2bs[k] % Q[k] != 0) ++bad;
    }
    for (int k = 0; k < 4; ++k) if (p->reduc_metadata.modulo_red_cst[k] != (uint64_t)((((unsigned __int128)1) << p->reduc_metadata.h) % Q[k])) ++bad;
    if (p->reduc_metadata.mask != ((1ull << p->reduc_metadata.h) - 1)) ++bad;
  }
  printf("OBLIGATION ntt_tables_wf %s %ld twiddle words of the real tables (n=2..65536, ntt and intt) checked: t<q, t1==t*2^half_bs mod q, reduction constants, q2bs multiples of q; %ld bad\n", bad ? "FAIL" : "OK", words, bad);
  return bad ? 1 : 0;
}
