// S5: runs the REAL NTT/iNTT table constructors natively for every n = 2^1..2^16 and prints, per level, the metadata the
// lane-kernel obligations are instantiated with.  in_bs = bit-size budget of the values entering the level.
#include <stdio.h>
#include <stdint.h>
#include <math.h>
#include "q120/q120_ntt.h"
#include "q120/q120_ntt_private.h"
#include "q120/q120_common.h"
static int sh(uint64_t q2bs, uint32_t q) { int s = 0; while (((uint64_t)q << s) < q2bs) ++s; return (((uint64_t)q << s) == q2bs) ? s : -1; }
int main(void) {
  for (int lg = 1; lg <= 16; ++lg) {
    uint64_t n = 1ull << lg;
    for (int inv = 0; inv < 2; ++inv) {
      q120_ntt_precomp* p = inv ? q120_new_intt_bb_precomp(n) : q120_new_ntt_bb_precomp(n);
      int nl = lg + 1;   // levels: forward: first + (lg-1) middle + last ; inverse: first(a+b,a-b) + (lg-1) middle + last(mult)
      printf("RED %d %d %lu %lu\n", lg, inv, p->reduc_metadata.h, p->reduc_metadata.mask);
      for (int k = 0; k < 4; ++k) printf("REDC %d %d %d %lu\n", lg, inv, k, p->reduc_metadata.modulo_red_cst[k]);
      for (int l = 0; l < nl; ++l) {
        q120_ntt_step_precomp* m = p->level_metadata + l;
        int isfirst_fwd = (!inv && l == 0), islast_inv = (inv && l == nl - 1);
        printf("LEVEL %d %d %d reduce=%d bs=%lu half_bs=%lu mask=%lu q2sh=%d\n", lg, inv, l, (isfirst_fwd ? 0 : m->reduce), m->bs, m->half_bs, m->mask,
               isfirst_fwd ? -2 : sh(m->q2bs[0], Q1));
      }
      printf("OUT %d %d in=%lu out=%lu\n", lg, inv, p->input_bit_size, p->output_bit_size);
    }
  }
  return 0;
}
