// prints the q120 constants of the REAL header (compiled natively on every run) for the integer lemmas
#include <stdio.h>
#include <stdint.h>
#include "q120/q120_common.h"
int main(void) {
  printf("Q %u %u %u %u\n", Q1, Q2, Q3, Q4);
  printf("CRT %u %u %u %u\n", Q1_CRT_CST, Q2_CRT_CST, Q3_CRT_CST, Q4_CRT_CST);
  printf("MAX_ELL %d\n", MAX_ELL);
  return 0;
}
