// Contracts for spqlios/coeffs/coeffs_arithmetic.c (element kernels, normalization primitive).
// Attached with --enforce-contract f/f__c ; the same symbols are used for --replace-call-with-contract.
#include "coeffs_contracts.h"

// ---------------------------------------------------------------- harnesses (dfcc entry points)
void h_znx_add_i64_ref(void) {
  uint64_t nn; int64_t *res; const int64_t *a, *b;
  G = nondet_u64();
  znx_add_i64_ref(nn, res, a, b);
  VACUITY_CANARY();
}
void h_znx_sub_i64_ref(void) {
  uint64_t nn; int64_t *res; const int64_t *a, *b;
  G = nondet_u64();
  znx_sub_i64_ref(nn, res, a, b);
  VACUITY_CANARY();
}
void h_znx_negate_i64_ref(void) {
  uint64_t nn; int64_t *res; const int64_t *a;
  G = nondet_u64();
  znx_negate_i64_ref(nn, res, a);
  VACUITY_CANARY();
}
void h_znx_copy_i64_ref(void) {
  uint64_t nn; int64_t *res; const int64_t *a;
  G = nondet_u64();
  znx_copy_i64_ref(nn, res, a);
  VACUITY_CANARY();
}
void h_znx_zero_i64_ref(void) {
  uint64_t nn; int64_t *res;
  G = nondet_u64();
  znx_zero_i64_ref(nn, res);
  VACUITY_CANARY();
}
void h_znx_normalize(void) {
  uint64_t nn, base_k; int64_t *out, *carry_out; const int64_t *in, *carry_in;
  G = nondet_u64();
  znx_normalize(nn, base_k, out, carry_out, in, carry_in);
  VACUITY_CANARY();
}
