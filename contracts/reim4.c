// C17 (data movement part): block extract / save kernels of reim4_arithmetic_{ref,avx2}.c.  Straight-line functions:
// enforced over ALL m = 4..65536 (multiple of 4) and all block indices (S2, no loop).  Bit-pattern equality of doubles.
// ref and avx are enforced against the SAME contract symbol (C07 pair).
#include "vcommon.h"
void reim4_extract_1blk_from_reim_ref(uint64_t m, uint64_t blk, double* const dst, const double* const src);
void reim4_extract_1blk_from_reim_avx(uint64_t m, uint64_t blk, double* const dst, const double* const src);
void reim4_save_1blk_to_reim_ref(uint64_t m, uint64_t blk, double* dst, const double* src);
void reim4_save_1blk_to_reim_avx(uint64_t m, uint64_t blk, double* dst, const double* src);
void reim4_extract_1blk_from_contiguous_reim_ref(uint64_t m, uint64_t nrows, uint64_t blk, double* const dst, const double* const src);
void reim4_extract_1blk_from_contiguous_reim_avx(uint64_t m, uint64_t nrows, uint64_t blk, double* const dst, const double* const src);
void reim4_extract_1blk_from_contiguous_reim_sl_ref(uint64_t m, uint64_t sl, uint64_t nrows, uint64_t blk, double* const dst, const double* const src);
void reim4_extract_1blk_from_contiguous_reim_sl_avx(uint64_t m, uint64_t sl, uint64_t nrows, uint64_t blk, double* const dst, const double* const src);
GHOST uint64_t GK;   // ghost lane 0..3
GHOST uint64_t GO;   // ghost "other" index of the destination vector (save: must stay unchanged)
#define BITS(v, i) (((const uint64_t*)(v))[i])
#define REQ_M (4 <= m && m <= MAXN && (m & 3) == 0 && blk < (m >> 2) && GK < 4)

// block blk of a reim vector = evaluations 4blk..4blk+3: real parts then imaginary parts
void reim4_extract_1blk__c(uint64_t m, uint64_t blk, double* const dst, const double* const src)
__CPROVER_requires(REQ_M)
__CPROVER_requires(__CPROVER_is_fresh(dst, 64) && __CPROVER_is_fresh(src, 2 * m * 8))
__CPROVER_assigns(__CPROVER_object_upto(dst, 64))
__CPROVER_ensures(BITS(dst, GK) == BITS(src, 4 * blk + GK)) /*@extract_real_parts:C17,C07,C15*/
__CPROVER_ensures(BITS(dst, 4 + GK) == BITS(src, m + 4 * blk + GK)) /*@extract_imaginary_parts:C17,C07,C15*/
;
// save is the inverse: exactly the 8 cells of block blk are written, every other cell keeps its bits
void reim4_save_1blk__c(uint64_t m, uint64_t blk, double* dst, const double* src)
__CPROVER_requires(REQ_M && GO < 2 * m)
__CPROVER_requires(__CPROVER_is_fresh(dst, 2 * m * 8) && __CPROVER_is_fresh(src, 64))
__CPROVER_assigns(__CPROVER_object_upto(dst + 4 * blk, 32), __CPROVER_object_upto(dst + m + 4 * blk, 32))
__CPROVER_ensures(BITS(dst, 4 * blk + GK) == BITS(src, GK)) /*@save_real_parts:C17,C07,C15*/
__CPROVER_ensures(BITS(dst, m + 4 * blk + GK) == BITS(src, 4 + GK)) /*@save_imaginary_parts:C17,C07,C15*/
__CPROVER_ensures(((4 * blk <= GO && GO < 4 * blk + 4) || (m + 4 * blk <= GO && GO < m + 4 * blk + 4)) || BITS(dst, GO) == __CPROVER_old(BITS(dst, GO))) /*@save_other_cells_unchanged:C17,C18,C11*/
;
#define HX(hname, fn) void hname(void) { uint64_t m, blk; double* dst; const double* src; GK = nondet_u64(); GO = nondet_u64(); fn(m, blk, dst, src); VACUITY_CANARY(); }
HX(h_extract_ref, reim4_extract_1blk_from_reim_ref)
HX(h_extract_avx, reim4_extract_1blk_from_reim_avx)
HX(h_save_ref, reim4_save_1blk_to_reim_ref)
HX(h_save_avx, reim4_save_1blk_to_reim_avx)

// ---- S4 (rows bounded, m/sl/blk symbolic): extraction from NROWS contiguous / strided reim vectors; save∘extract = id
#ifndef NROWS
#define NROWS 2
#endif
#ifndef VARIANT
#define VARIANT 0
#endif
#ifndef MM
#define MM 8
#endif
void h_extract_contiguous(void) {
  // concrete m (the pointer-bumping loops forbid a loop contract; a symbolic m would make every access a symbolic offset)
  uint64_t m = MM, blk = nondet_u64(), sl = MM + SLX;
  __CPROVER_assume(blk < (m >> 2));
  static double src[NROWS * (2 * MM + SLX) + 1], dst[8 * NROWS + 1];
  uint64_t sb[NROWS * (2 * MM + SLX) + 1];
  for (int i = 0; i < NROWS * (2 * MM + SLX) + 1; ++i) sb[i] = nondet_u64();
  __CPROVER_array_copy((char*)src, (char*)sb);
  double canary = dst[8 * NROWS];
#if VARIANT == 0
  reim4_extract_1blk_from_contiguous_reim_ref(m, NROWS, blk, dst, src);
#elif VARIANT == 1
  reim4_extract_1blk_from_contiguous_reim_avx(m, NROWS, blk, dst, src);
#elif VARIANT == 2
  reim4_extract_1blk_from_contiguous_reim_sl_ref(m, 2 * MM + SLX, NROWS, blk, dst, src);
#else
  reim4_extract_1blk_from_contiguous_reim_sl_avx(m, 2 * MM + SLX, NROWS, blk, dst, src);
#endif
#if NROWS > 0
  uint64_t row = nondet_u64(), k = nondet_u64();
  __CPROVER_assume(row < NROWS && k < 4);
  uint64_t rsl = (VARIANT < 2) ? 2 * m : 2 * MM + SLX;   // distance between consecutive reim vectors
  __CPROVER_assert(BITS(dst, 8 * row + k) == BITS(src, row * rsl + 4 * blk + k), "contiguous extract: real parts of row");
  __CPROVER_assert(BITS(dst, 8 * row + 4 + k) == BITS(src, row * rsl + m + 4 * blk + k), "contiguous extract: imaginary parts of row");
#endif
  __CPROVER_assert(BITS(dst, 8 * NROWS) == BITS(&canary, 0), "contiguous extract: nothing written past 8*nrows doubles");
  VACUITY_CANARY();
}

// ---- S4: interleaved complex (m numbers) -> reim4 block layout -> back is the identity on ALL m numbers; the tables are
// built by the real init_* functions with the dimension m the public constructors forward.  CVARIANT 0: ref, 1: fma
#include "reim4/reim4_fftvec_private.h"
void* init_reim4_from_cplx_precomp(REIM4_FROM_CPLX_PRECOMP* res, uint32_t m);
void* init_reim4_to_cplx_precomp(REIM4_TO_CPLX_PRECOMP* res, uint32_t m);
#ifndef CVARIANT
#define CVARIANT 0
#endif
void h_cplx_roundtrip(void) {
  REIM4_FROM_CPLX_PRECOMP f; REIM4_TO_CPLX_PRECOMP t;
  init_reim4_from_cplx_precomp(&f, MM);
  init_reim4_to_cplx_precomp(&t, MM);
  static double a[2 * MM], r[2 * MM + 1], b[2 * MM + 1];
  uint64_t ab[2 * MM];
  for (int i = 0; i < 2 * MM; ++i) ab[i] = nondet_u64();
  __CPROVER_array_copy((char*)a, (char*)ab);
#if CVARIANT == 0
  reim4_from_cplx_ref(&f, r, a);
  reim4_to_cplx_ref(&t, b, r);
#else
  reim4_from_cplx_fma(&f, r, a);
  reim4_to_cplx_fma(&t, b, r);
#endif
  uint64_t g = nondet_u64();
  __CPROVER_assume(g < MM);
  __CPROVER_assert(BITS(b, 2 * g) == BITS(a, 2 * g) && BITS(b, 2 * g + 1) == BITS(a, 2 * g + 1), "cplx -> reim4 -> cplx is the identity on all m complex numbers");
  // (the order of the four numbers inside a block -- 0,2,1,3 -- is the library's choice; the property fixes only the round trip)
  VACUITY_CANARY();
}
