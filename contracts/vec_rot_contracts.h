// S3 contracts of vec_znx_rotate_ref / vec_znx_automorphism_ref (C09, C08, C13): per-limb dispatch on pointer equality
// between the in-place and out-of-place kernels, zero extension, padding.  Kernels replaced by contracts: the
// out-of-place ones are proved (rot.c); the in-place ones are ASSUMED here with the same ring-map post and backed
// only by the bounded S4 equivalence runs (rot_inplace.c) -- listed as such in the evidence.
#ifndef VERIF_VEC_ROT_CONTRACTS_H
#define VERIF_VEC_ROT_CONTRACTS_H
#include "vec_shape.h"
void znx_rotate_i64(uint64_t nn, int64_t p, int64_t* res, const int64_t* in);
void znx_automorphism_i64(uint64_t nn, int64_t p, int64_t* res, const int64_t* in);
void znx_rotate_inplace_i64(uint64_t nn, int64_t p, int64_t* res);
void znx_automorphism_inplace_i64(uint64_t nn, int64_t p, int64_t* res);

#define ROT_S(t, p, nn) (((uint64_t)(t) - (uint64_t)(p)) & (2 * (nn)-1))
#define SGNV(c, v) ((c) ? (v) : WNEG(v))
#ifdef NO_AUT_REL
#define AUT_REL_K 1
#else
#define AUT_REL_K (AUT_REL(p, nn))
#endif
#define REQ_K IS_POW2(nn) && nn <= MAXN && G < nn && p > INT64_MIN

// same text as rot.c (kept in sync by tools/contract_sync.py): out-of-place kernels
void znx_rotate__c(uint64_t nn, int64_t p, int64_t* res, const int64_t* in)
__CPROVER_requires(REQ_K)
__CPROVER_requires(__CPROVER_is_fresh(res, nn * 8) && __CPROVER_is_fresh(in, nn * 8))
__CPROVER_assigns(__CPROVER_object_upto(res, nn * 8))
__CPROVER_ensures(res[G] == SGNV(ROT_S(G, p, nn) < nn, in[ROT_S(G, p, nn) & (nn - 1)]))
;
void znx_automorphism__c(uint64_t nn, int64_t p, int64_t* res, const int64_t* in)
__CPROVER_requires(REQ_K && (p & 1) == 1 && AUT_REL_K)
__CPROVER_requires(__CPROVER_is_fresh(res, nn * 8) && __CPROVER_is_fresh(in, nn * 8))
__CPROVER_assigns(__CPROVER_object_upto(res, nn * 8))
__CPROVER_ensures(res[GT & (nn - 1)] == SGNV(GT < nn, in[G]))
;
// in-place kernels: ASSUMED contracts (bounded evidence only)
void znx_rotate_inplace__c(uint64_t nn, int64_t p, int64_t* res)
__CPROVER_requires(REQ_K)
__CPROVER_requires(__CPROVER_is_fresh(res, nn * 8))
__CPROVER_assigns(__CPROVER_object_upto(res, nn * 8))
__CPROVER_ensures(res[G] == SGNV(ROT_S(G, p, nn) < nn, __CPROVER_old(res[ROT_S(G, p, nn) & (nn - 1)])))
;
void znx_automorphism_inplace__c(uint64_t nn, int64_t p, int64_t* res)
__CPROVER_requires(REQ_K && (p & 1) == 1 && AUT_REL_K)
__CPROVER_requires(__CPROVER_is_fresh(res, nn * 8))
__CPROVER_assigns(__CPROVER_object_upto(res, nn * 8))
__CPROVER_ensures(res[GT & (nn - 1)] == SGNV(GT < nn, __CPROVER_old(res[G])))
;

#define REQ_VROT IS_POW2(NN) && p > INT64_MIN
#if AS > 0
#define A_AT_IDX_(A, sl, idx) (GL < AS ? __CPROVER_old((A)[(GL < AS ? GL : 0) * (sl) + (idx)]) : 0)
#define A_AT_IDX(idx) A_AT_IDX_(a, a_sl, idx)
#else
#define A_AT_IDX_(A, sl, idx) 0
#define A_AT_IDX(idx) 0
#endif
void vec_znx_rotate__c(const MODULE* module, const int64_t p, int64_t* res, uint64_t res_size, uint64_t res_sl,
                       const int64_t* a, uint64_t a_size, uint64_t a_sl)
    __CPROVER_requires(REQ_MODULE) __CPROVER_requires(REQ_SHAPE2) __CPROVER_requires(REQ_VROT)
    __CPROVER_requires(__CPROVER_is_fresh(res, RES_BYTES)) __CPROVER_requires(REQ_A) __CPROVER_requires(REQ_GHOST)
    __CPROVER_assigns(__CPROVER_object_upto(res, RES_BYTES))
    __CPROVER_ensures(RS == 0 || res[GL * res_sl + G] == SGNV(ROT_S(G, p, NN) < NN, A_AT_IDX(ROT_S(G, p, NN) & (NN - 1)))) /*@vec_rotate_limb_is_a_times_X_p:C09,C08,C13,C15*/
    __CPROVER_ensures(ENS_PAD) /*@vec_rotate_padding:C08,C11,C18*/
    __CPROVER_ensures(ENS_TAIL) /*@vec_rotate_tail:C08,C11,C18*/
;
void vec_znx_automorphism__c(const MODULE* module, const int64_t p, int64_t* res, uint64_t res_size, uint64_t res_sl,
                             const int64_t* a, uint64_t a_size, uint64_t a_sl)
    __CPROVER_requires(REQ_MODULE) __CPROVER_requires(REQ_SHAPE2) __CPROVER_requires(REQ_VROT && (p & 1) == 1 && AUT_REL(p, NN))
    __CPROVER_requires(__CPROVER_is_fresh(res, RES_BYTES)) __CPROVER_requires(REQ_A) __CPROVER_requires(REQ_GHOST)
    __CPROVER_assigns(__CPROVER_object_upto(res, RES_BYTES))
    __CPROVER_ensures(RS == 0 || GL >= AS || res[GL * res_sl + (GT & (NN - 1))] == SGNV(GT < NN, A_AT_IDX(G))) /*@vec_automorphism_limb_is_a_of_X_p:C09,C08,C13,C15*/
    __CPROVER_ensures(RS == 0 || GL < AS || res[GL * res_sl + G] == 0) /*@vec_automorphism_zero_extension:C08*/
    __CPROVER_ensures(ENS_PAD) /*@vec_automorphism_padding:C08,C11,C18*/
    __CPROVER_ensures(ENS_TAIL) /*@vec_automorphism_tail:C08,C11,C18*/
;
#endif
