// C17 / C11 (index obligations of the dot products and the windowed convolution, reim4_arithmetic_ref.c): for EVERY length
// (loop contracts), every call of the inner kernel reim4_add_mul stays inside the operands, the destination is overwritten
// not accumulated (it is zeroed first), a length-0 product and an out-of-window convolution coefficient are exactly zero.
// The floating-point value of the result is NOT specified here (error-bound statement, DESIGN 6).
#include "vcommon.h"
void reim4_zero(double* const dst);
void reim4_add_mul(double* const dst, const double* const u, const double* const v);
void reim4_vec_mat1col_product_ref(const uint64_t nrows, double* const dst, const double* const u, const double* const v);
void reim4_vec_mat2cols_product_ref(const uint64_t nrows, double* const dst, const double* const u, const double* const v);
void reim4_convolution_1coeff_ref(uint64_t k, double* dest, const double* a, uint64_t sizea, const double* b, uint64_t sizeb);
GHOST uint64_t GK;
#define BITS(v, i) (((const uint64_t*)(v))[i])
#define MAXROWS 100000ULL
// assumed frames of the two leaf kernels (8 doubles each); reim4_zero's value post is what makes "length 0 => exact zero"
void reim4_zero__c(double* const dst)
__CPROVER_requires(__CPROVER_is_fresh(dst, 64) && GK < 8) __CPROVER_assigns(__CPROVER_object_upto(dst, 64))
__CPROVER_ensures(BITS(dst, GK) == 0);
void reim4_add_mul__c(double* const dst, const double* const u, const double* const v)
__CPROVER_requires(__CPROVER_is_fresh(dst, 64) && __CPROVER_is_fresh(u, 64) && __CPROVER_is_fresh(v, 64))
__CPROVER_assigns(__CPROVER_object_upto(dst, 64));

void mat1col__c(const uint64_t nrows, double* const dst, const double* const u, const double* const v)
__CPROVER_requires(nrows <= MAXROWS && GK < 8)
__CPROVER_requires(__CPROVER_is_fresh(dst, 64) && __CPROVER_is_fresh(u, nrows * 64) && __CPROVER_is_fresh(v, nrows * 64))
__CPROVER_assigns(__CPROVER_object_upto(dst, 64))
__CPROVER_ensures(nrows != 0 || BITS(dst, GK) == 0) /*@mat1col_length_zero_is_exact_zero:C17,C15*/
;
void mat2cols__c(const uint64_t nrows, double* const dst, const double* const u, const double* const v)
__CPROVER_requires(nrows <= MAXROWS && GK < 8)
__CPROVER_requires(__CPROVER_is_fresh(dst, 128) && __CPROVER_is_fresh(u, nrows * 64) && __CPROVER_is_fresh(v, nrows * 128))
__CPROVER_assigns(__CPROVER_object_upto(dst, 128))
__CPROVER_ensures(nrows != 0 || (BITS(dst, GK) == 0 && BITS(dst, 8 + GK) == 0)) /*@mat2cols_length_zero_is_exact_zero:C17,C15*/
;
// k-th coefficient of a*b: sum over j in [max(0,k+1-sizea), min(sizeb,k+1)) of a[k-j]*b[j]; outside the window: exact zero
void conv1__c(uint64_t k, double* dest, const double* a, uint64_t sizea, const double* b, uint64_t sizeb)
__CPROVER_requires(sizea <= MAXROWS && sizeb <= MAXROWS && k <= 4 * MAXROWS && GK < 8)
__CPROVER_requires(__CPROVER_is_fresh(dest, 64) && __CPROVER_is_fresh(a, sizea * 64) && __CPROVER_is_fresh(b, sizeb * 64))
__CPROVER_assigns(__CPROVER_object_upto(dest, 64))
__CPROVER_ensures((k + 1 < sizea + sizeb && sizea != 0 && sizeb != 0) || BITS(dest, GK) == 0) /*@convolution_outside_window_is_exact_zero:C17,C15*/
;
// ---- windowed convolution: which coefficient lands in which block.  The floating-point value of a coefficient is not
// specified, so "block holds coefficient number c" is carried by ghost state (abstract view of ONE tracked block, the block
// at GDEST): the 1-coefficient kernel's contract says  view(dest) := k  (that the kernel computes the k-th windowed sum is its
// own index proof above), the 2-coefficient kernel and the window loop are proved against  view(dest + 8*g) == k0 + g.
void reim4_convolution_2coeff_ref(uint64_t k, double* dest, const double* a, uint64_t sizea, const double* b, uint64_t sizeb);
void reim4_convolution_ref(double* dest, uint64_t dest_size, uint64_t dest_offset, const double* a, uint64_t sizea, const double* b, uint64_t sizeb);
GHOST const double* GDEST;
GHOST uint64_t GVIEW;
GHOST uint64_t GC;
#define IN_WINDOW(c) ((c) + 1 < sizea + sizeb && sizea != 0 && sizeb != 0)
void conv1_view__c(uint64_t k, double* dest, const double* a, uint64_t sizea, const double* b, uint64_t sizeb)
__CPROVER_requires(sizea <= MAXROWS && sizeb <= MAXROWS && k <= 4 * MAXROWS && GK < 8)
__CPROVER_requires(__CPROVER_is_fresh(dest, 64) && __CPROVER_is_fresh(a, sizea * 64) && __CPROVER_is_fresh(b, sizeb * 64))
__CPROVER_assigns(__CPROVER_object_upto(dest, 64), GVIEW)
__CPROVER_ensures(IN_WINDOW(k) || BITS(dest, GK) == 0)
__CPROVER_ensures(dest == GDEST ? GVIEW == k : GVIEW == __CPROVER_old(GVIEW))
;
void conv2__c(uint64_t k, double* dest, const double* a, uint64_t sizea, const double* b, uint64_t sizeb)
__CPROVER_requires(sizea <= MAXROWS && sizeb <= MAXROWS && k < 4 * MAXROWS && GK < 8 && GC < 2)
__CPROVER_requires(__CPROVER_is_fresh(dest, 128) && __CPROVER_is_fresh(a, sizea * 64) && __CPROVER_is_fresh(b, sizeb * 64))
__CPROVER_requires(GDEST == dest + 8 * GC)
__CPROVER_assigns(__CPROVER_object_upto(dest, 128), GVIEW)
__CPROVER_ensures(GVIEW == k + GC) /*@convolution_2coeff_block_g_holds_coefficient_k_plus_g:C17,C15*/
__CPROVER_ensures(IN_WINDOW(k + GC) || BITS(dest + 8 * GC, GK) == 0) /*@convolution_2coeff_outside_window_is_exact_zero:C17,C15*/
;
// the same contract in the form used at call sites (GDEST anywhere: either tracked block or neither)
void conv2_view__c(uint64_t k, double* dest, const double* a, uint64_t sizea, const double* b, uint64_t sizeb)
__CPROVER_requires(sizea <= MAXROWS && sizeb <= MAXROWS && k < 4 * MAXROWS && GK < 8)
__CPROVER_requires(__CPROVER_is_fresh(dest, 128) && __CPROVER_is_fresh(a, sizea * 64) && __CPROVER_is_fresh(b, sizeb * 64))
__CPROVER_assigns(__CPROVER_object_upto(dest, 128), GVIEW)
__CPROVER_ensures(IN_WINDOW(k) || BITS(dest, GK) == 0)
__CPROVER_ensures(IN_WINDOW(k + 1) || BITS(dest + 8, GK) == 0)
__CPROVER_ensures(dest == GDEST ? GVIEW == k : dest + 8 == GDEST ? GVIEW == k + 1 : GVIEW == __CPROVER_old(GVIEW))
;
void conv__c(double* dest, uint64_t dest_size, uint64_t dest_offset, const double* a, uint64_t sizea, const double* b, uint64_t sizeb)
__CPROVER_requires(sizea <= MAXROWS && sizeb <= MAXROWS && dest_size <= MAXROWS && dest_offset <= MAXROWS && GK < 8 && GC < dest_size)
__CPROVER_requires(__CPROVER_is_fresh(dest, dest_size * 64) && __CPROVER_is_fresh(a, sizea * 64) && __CPROVER_is_fresh(b, sizeb * 64))
__CPROVER_requires(GDEST == dest + 8 * GC)
__CPROVER_assigns(__CPROVER_object_upto(dest, dest_size * 64), GVIEW)
__CPROVER_ensures(GVIEW == GC + dest_offset) /*@convolution_window_block_g_holds_coefficient_offset_plus_g:C17,C15*/
__CPROVER_ensures(IN_WINDOW(GC + dest_offset) || BITS(dest + 8 * GC, GK) == 0) /*@convolution_window_outside_product_is_exact_zero:C17,C15*/
;
void h_conv2(void) { uint64_t k, sa, sb; double* d; const double *a, *b; GK = nondet_u64(); GC = nondet_u64(); GVIEW = nondet_u64(); reim4_convolution_2coeff_ref(k, d, a, sa, b, sb); VACUITY_CANARY(); }
void h_conv(void) { uint64_t n, o, sa, sb; double* d; const double *a, *b; GK = nondet_u64(); GC = nondet_u64(); GVIEW = nondet_u64(); reim4_convolution_ref(d, n, o, a, sa, b, sb); VACUITY_CANARY(); }
void h_mat1col(void) { uint64_t n; double* d; const double *u, *v; GK = nondet_u64(); reim4_vec_mat1col_product_ref(n, d, u, v); VACUITY_CANARY(); }
void h_mat2cols(void) { uint64_t n; double* d; const double *u, *v; GK = nondet_u64(); reim4_vec_mat2cols_product_ref(n, d, u, v); VACUITY_CANARY(); }
void h_conv1(void) { uint64_t k, sa, sb; double* d; const double *a, *b; GK = nondet_u64(); reim4_convolution_1coeff_ref(k, d, a, sa, b, sb); VACUITY_CANARY(); }
