// C11 / C18 (and the structural clause "rows beyond the input are exactly zero" of C01/C13): the FFT64 DFT / iDFT / SVP
// wrappers of arithmetic/vec_znx_dft.c, scalar_vector_product.c, znx_small.c.  The transform and conversion callees
// (reim_from_znx64, reim_fft, reim_ifft, reim_to_znx64, reim_fftvec_mul: public dispatchers through table function pointers)
// are replaced by ASSUMED frame-only contracts: "needs a table of dimension m = N/2, reads 2m doubles / int64 of the source,
// writes exactly 2m cells of the destination, nothing else".  Decided here: every call site hands each callee buffers of
// the required extent inside the declared objects (exact-size is_fresh objects, no alignment), only the declared output
// (and documented scratch) is assignable, zero-filled rows are exactly zero.  S3: limb counts concrete, N and data symbolic.
#include "arithmetic/vec_znx_arithmetic_private.h"
#include "reim/reim_fft_private.h"
#include "vcommon.h"
#ifndef RS
#define RS 2
#endif
#ifndef AS
#define AS 2
#endif
#ifndef AM
#define AM 1
#define AA 0
#endif
#ifndef ALIAS
#define ALIAS 0
#endif
GHOST uint64_t G;
GHOST uint64_t GL;
#define NN (module->nn)
#define MH (module->m)
// ---- assumed frame contracts of the callees (table dimension must match the module: m == nn/2)
void reim_from_znx64__c(const REIM_FROM_ZNX64_PRECOMP* tables, void* r, const int64_t* a)
__CPROVER_requires(__CPROVER_is_fresh(tables, sizeof(*tables)) && tables->m >= 1 && tables->m <= MAXN / 2)
__CPROVER_requires(__CPROVER_is_fresh(r, tables->m * 16) && __CPROVER_is_fresh(a, tables->m * 16))
__CPROVER_assigns(__CPROVER_object_upto(r, tables->m * 16));
void reim_fft__c(const REIM_FFT_PRECOMP* tables, double* data)
__CPROVER_requires(__CPROVER_is_fresh(tables, sizeof(*tables)) && tables->m >= 1 && tables->m <= MAXN / 2)
__CPROVER_requires(__CPROVER_is_fresh(data, tables->m * 16))
__CPROVER_assigns(__CPROVER_object_upto(data, tables->m * 16));
void reim_ifft__c(const REIM_IFFT_PRECOMP* tables, double* data)
__CPROVER_requires(__CPROVER_is_fresh(tables, sizeof(*tables)) && tables->m >= 1 && tables->m <= MAXN / 2)
__CPROVER_requires(__CPROVER_is_fresh(data, tables->m * 16))
__CPROVER_assigns(__CPROVER_object_upto(data, tables->m * 16));
void reim_to_znx64__c(const REIM_TO_ZNX64_PRECOMP* tables, int64_t* r, const void* a)
__CPROVER_requires(__CPROVER_is_fresh(tables, sizeof(*tables)) && tables->m >= 1 && tables->m <= MAXN / 2)
__CPROVER_requires(__CPROVER_is_fresh(r, tables->m * 16))
__CPROVER_requires(a == (const void*)r || __CPROVER_is_fresh(a, tables->m * 16))
__CPROVER_assigns(__CPROVER_object_upto(r, tables->m * 16));
void reim_fftvec_mul__c(const REIM_FFTVEC_MUL_PRECOMP* tables, double* r, const double* a, const double* b)
__CPROVER_requires(__CPROVER_is_fresh(tables, sizeof(*tables)) && tables->m >= 1 && tables->m <= MAXN / 2)
__CPROVER_requires(__CPROVER_is_fresh(r, tables->m * 16))
__CPROVER_requires(a == r || __CPROVER_is_fresh(a, tables->m * 16))
__CPROVER_requires(b == r || b == a || __CPROVER_is_fresh(b, tables->m * 16))
__CPROVER_assigns(__CPROVER_object_upto(r, tables->m * 16));

// ---- well-formed FFT64 module: nn = 2m, every table is its own object of the module's dimension
#define WF_FFT64 (__CPROVER_is_fresh(module, sizeof(MODULE)) && 2 <= NN && NN <= MAXN && IS_POW2(NN) && MH == NN / 2 \
  && __CPROVER_is_fresh(module->mod.fft64.p_conv, sizeof(REIM_FROM_ZNX64_PRECOMP)) && module->mod.fft64.p_conv->m == MH \
  && __CPROVER_is_fresh(module->mod.fft64.p_fft, sizeof(REIM_FFT_PRECOMP)) && module->mod.fft64.p_fft->m == MH \
  && __CPROVER_is_fresh(module->mod.fft64.p_ifft, sizeof(REIM_IFFT_PRECOMP)) && module->mod.fft64.p_ifft->m == MH \
  && __CPROVER_is_fresh(module->mod.fft64.p_reim_to_znx, sizeof(REIM_TO_ZNX64_PRECOMP)) && module->mod.fft64.p_reim_to_znx->m == MH \
  && __CPROVER_is_fresh(module->mod.fft64.mul_fft, sizeof(REIM_FFTVEC_MUL_PRECOMP)) && module->mod.fft64.mul_fft->m == MH)
#if RS < AS
#define SMIN RS
#else
#define SMIN AS
#endif
#if AS > 0
#define A_SMALL_BYTES (((AS - 1) * a_sl + NN) * 8)
#else
#define A_SMALL_BYTES 0
#endif
#define BITS(v, i) (((const uint64_t*)(v))[i])
// rows smin <= GL < res_size of the output are exactly +0.0 / 0
#if RS > SMIN
#define ENS_ZERO_ROWS(res) (GL < SMIN || BITS(res, GL * NN + G) == 0)
#else
#define ENS_ZERO_ROWS(res) 1
#endif
#define REQ_G (G < NN && (RS == 0 || GL < RS))

void fft64_vec_znx_dft__c(const MODULE* module, VEC_ZNX_DFT* res, uint64_t res_size, const int64_t* a, uint64_t a_size, uint64_t a_sl)
__CPROVER_requires(WF_FFT64) __CPROVER_requires(res_size == RS && a_size == AS && a_sl == NN * AM + AA && REQ_G)
__CPROVER_requires(__CPROVER_is_fresh(res, RS * NN * 8) && __CPROVER_is_fresh(a, A_SMALL_BYTES))
__CPROVER_assigns(__CPROVER_object_upto(res, RS * NN * 8))
__CPROVER_ensures(ENS_ZERO_ROWS(res)) /*@dft_rows_beyond_input_are_zero:C11,C18,C15*/
;
void fft64_vec_znx_idft__c(const MODULE* module, VEC_ZNX_BIG* res, uint64_t res_size, const VEC_ZNX_DFT* a_dft, uint64_t a_size, uint8_t* tmp)
__CPROVER_requires(WF_FFT64) __CPROVER_requires(res_size == RS && a_size == AS && REQ_G)
#if ALIAS == 1
__CPROVER_requires(__CPROVER_is_fresh(res, (RS + AS - SMIN) * NN * 8) && a_dft == (const VEC_ZNX_DFT*)res)
#else
__CPROVER_requires(__CPROVER_is_fresh(res, RS * NN * 8) && __CPROVER_is_fresh(a_dft, AS * NN * 8))
#endif
__CPROVER_assigns(__CPROVER_object_upto(res, RS * NN * 8))
__CPROVER_ensures(ENS_ZERO_ROWS(res)) /*@idft_rows_beyond_input_are_zero:C11,C18,C13,C15*/
;
void fft64_vec_znx_idft_tmp_a__c(const MODULE* module, VEC_ZNX_BIG* res, uint64_t res_size, VEC_ZNX_DFT* a_dft, uint64_t a_size)
__CPROVER_requires(WF_FFT64) __CPROVER_requires(res_size == RS && a_size == AS && REQ_G)
__CPROVER_requires(__CPROVER_is_fresh(res, RS * NN * 8) && __CPROVER_is_fresh(a_dft, AS * NN * 8))
__CPROVER_assigns(__CPROVER_object_upto(res, RS * NN * 8), __CPROVER_object_upto(a_dft, SMIN * NN * 8))   /* the documented exception: a_dft is scratch */
__CPROVER_ensures(ENS_ZERO_ROWS(res)) /*@idft_tmp_a_rows_beyond_input_are_zero:C11,C18,C15*/
;
void fft64_svp_prepare__c(const MODULE* module, SVP_PPOL* ppol, const int64_t* pol)
__CPROVER_requires(WF_FFT64) __CPROVER_requires(__CPROVER_is_fresh(ppol, NN * 8) && __CPROVER_is_fresh(pol, NN * 8))
__CPROVER_assigns(__CPROVER_object_upto(ppol, NN * 8))
;
void fft64_svp_apply_dft__c(const MODULE* module, const VEC_ZNX_DFT* res, uint64_t res_size, const SVP_PPOL* ppol, const int64_t* a, uint64_t a_size, uint64_t a_sl)
__CPROVER_requires(WF_FFT64) __CPROVER_requires(res_size == RS && a_size == AS && a_sl == NN * AM + AA && REQ_G)
__CPROVER_requires(__CPROVER_is_fresh(res, RS * NN * 8) && __CPROVER_is_fresh(ppol, NN * 8) && __CPROVER_is_fresh(a, A_SMALL_BYTES))
__CPROVER_assigns(__CPROVER_object_upto(res, RS * NN * 8))
__CPROVER_ensures(ENS_ZERO_ROWS(res)) /*@svp_apply_rows_beyond_input_are_zero:C11,C18,C15*/
;
void fft64_znx_small_single_product__c(const MODULE* module, int64_t* res, const int64_t* a, const int64_t* b, uint8_t* tmp)
__CPROVER_requires(WF_FFT64)
__CPROVER_requires(__CPROVER_is_fresh(res, NN * 8) && __CPROVER_is_fresh(a, NN * 8) && __CPROVER_is_fresh(b, NN * 8) && __CPROVER_is_fresh(tmp, 2 * NN * 8))
__CPROVER_assigns(__CPROVER_object_upto(res, NN * 8), __CPROVER_object_upto(tmp, 2 * NN * 8))   /* tmp: exactly znx_small_single_product_tmp_bytes */
;
// ---- NTT120 backend (vec_znx_dft.c): frame contracts of the q120 callees, n = nn; a DFT limb is 4*nn words, a big limb nn int128
#include "q120/q120_ntt_private.h"
static MODULE GMN; static q120_ntt_precomp GT_NTT; static q120_ntt_precomp GT_INTT;
void q120_b_from_znx64_simple__c(uint64_t nn, q120b* const res, const int64_t* const x)
__CPROVER_requires(nn <= MAXN) __CPROVER_requires(__CPROVER_is_fresh(res, nn * 32) && __CPROVER_is_fresh(x, nn * 8))
__CPROVER_assigns(__CPROVER_object_upto(res, nn * 32));
void q120_ntt_bb_avx2__c(const q120_ntt_precomp* const precomp, q120b* const data_ptr)
__CPROVER_requires((precomp == &GT_NTT || precomp == &GT_INTT) && precomp->n <= MAXN)
__CPROVER_requires(__CPROVER_is_fresh(data_ptr, precomp->n * 32))
__CPROVER_assigns(__CPROVER_object_upto(data_ptr, precomp->n * 32));
void q120_intt_bb_avx2__c(const q120_ntt_precomp* const precomp, q120b* const data_ptr)
__CPROVER_requires((precomp == &GT_NTT || precomp == &GT_INTT) && precomp->n <= MAXN)
__CPROVER_requires(__CPROVER_is_fresh(data_ptr, precomp->n * 32))
__CPROVER_assigns(__CPROVER_object_upto(data_ptr, precomp->n * 32));
void q120_b_to_znx128_simple__c(uint64_t nn, __int128_t* const res, const q120b* const x)
__CPROVER_requires(nn <= MAXN) __CPROVER_requires(__CPROVER_is_fresh(res, nn * 16) && __CPROVER_is_fresh(x, nn * 32))
__CPROVER_assigns(__CPROVER_object_upto(res, nn * 16));
// The module and its two NTT tables are objects BUILT BY THE HARNESS (nn symbolic, table dimension assigned from it): with
// is_fresh on members of the module's union CBMC 6.11 loses the constraint on the pointee (spurious call-site failures, the
// reason these jobs were withdrawn at first); the contract only restates what the harness built.
static const MODULE* ntt120_module(void) {
  uint64_t nn = nondet_u64();
  GMN.nn = nn; GMN.m = nn / 2; GT_NTT.n = nn; GT_INTT.n = nn;
  GMN.mod.q120.p_ntt = &GT_NTT; GMN.mod.q120.p_intt = &GT_INTT;
  return &GMN;
}
#define WF_NTT120 (module == &GMN && 2 <= NN && NN <= MAXN && IS_POW2(NN))
#define WF_NTT120_A (module->mod.q120.p_ntt == &GT_NTT)
#define WF_NTT120_B (module->mod.q120.p_intt == &GT_INTT)
#define WF_NTT120_CA (module->mod.q120.p_ntt->n == NN)
#define WF_NTT120_CB (module->mod.q120.p_intt->n == NN)
// only the table the function uses is allocated, and in ONE requires clause with the module itself: with the is_fresh of a
// member of the module's union in a separate clause, or with two of them, CBMC 6.11 loses the constraint on the pointee
// (observed, not understood; the spurious failures were call-site preconditions, i.e. false alarms, never passes)
#if RS > SMIN
#define ENS_ZERO_ROWS_W(res, W) (GL < SMIN || BITS(res, (GL * NN + G) * (W)) == 0)
#else
#define ENS_ZERO_ROWS_W(res, W) 1
#endif
void ntt120_vec_znx_dft__c(const MODULE* module, VEC_ZNX_DFT* res, uint64_t res_size, const int64_t* a, uint64_t a_size, uint64_t a_sl)
__CPROVER_requires(WF_NTT120 && WF_NTT120_A && WF_NTT120_CA) __CPROVER_requires(res_size == RS && a_size == AS && a_sl == NN * AM + AA && REQ_G)
__CPROVER_requires(__CPROVER_is_fresh(res, RS * NN * 32) && __CPROVER_is_fresh(a, A_SMALL_BYTES))
__CPROVER_assigns(__CPROVER_object_upto(res, RS * NN * 32))
__CPROVER_ensures(ENS_ZERO_ROWS_W(res, 4)) /*@ntt120_dft_rows_beyond_input_are_zero:C11,C18,C15*/
;
void ntt120_vec_znx_idft__c(const MODULE* module, VEC_ZNX_BIG* res, uint64_t res_size, const VEC_ZNX_DFT* a_dft, uint64_t a_size, uint8_t* tmp)
__CPROVER_requires(WF_NTT120 && WF_NTT120_B && WF_NTT120_CB) __CPROVER_requires(res_size == RS && a_size == AS && REQ_G)
#if ALIAS == 1
/* in place (C13): a big limb is N*16 bytes, a DFT limb N*32 bytes, both vectors start at the same address */
#define NTT_INPLACE_BYTES ((RS * 16 > AS * 32 ? RS * 16 : AS * 32) * NN)
__CPROVER_requires(__CPROVER_is_fresh(res, NTT_INPLACE_BYTES) && a_dft == (const VEC_ZNX_DFT*)res && __CPROVER_is_fresh(tmp, NN * 32))
#else
__CPROVER_requires(__CPROVER_is_fresh(res, RS * NN * 16) && __CPROVER_is_fresh(a_dft, AS * NN * 32) && __CPROVER_is_fresh(tmp, NN * 32))  /* tmp: ntt120_vec_znx_idft_tmp_bytes_avx */
#endif
__CPROVER_assigns(__CPROVER_object_upto(res, RS * NN * 16), __CPROVER_object_upto(tmp, NN * 32))
__CPROVER_ensures(ENS_ZERO_ROWS_W(res, 2)) /*@ntt120_idft_rows_beyond_input_are_zero:C11,C18,C15*/
;
void ntt120_vec_znx_idft_tmp_a__c(const MODULE* module, VEC_ZNX_BIG* res, uint64_t res_size, VEC_ZNX_DFT* a_dft, uint64_t a_size)
__CPROVER_requires(WF_NTT120 && WF_NTT120_B && WF_NTT120_CB) __CPROVER_requires(res_size == RS && a_size == AS && REQ_G)
__CPROVER_requires(__CPROVER_is_fresh(res, RS * NN * 16) && __CPROVER_is_fresh(a_dft, AS * NN * 32))
__CPROVER_assigns(__CPROVER_object_upto(res, RS * NN * 16), __CPROVER_object_upto(a_dft, SMIN * NN * 32))
__CPROVER_ensures(ENS_ZERO_ROWS_W(res, 2)) /*@ntt120_idft_tmp_a_rows_beyond_input_are_zero:C11,C18,C15*/
;
void h_ntt120_dft(void) { const MODULE* m = ntt120_module(); VEC_ZNX_DFT* r; const int64_t* a; uint64_t rs, as, asl; G = nondet_u64(); GL = nondet_u64(); ntt120_vec_znx_dft_avx(m, r, rs, a, as, asl); VACUITY_CANARY(); }
void h_ntt120_idft(void) { const MODULE* m = ntt120_module(); VEC_ZNX_BIG* r; const VEC_ZNX_DFT* a; uint64_t rs, as; uint8_t* t; G = nondet_u64(); GL = nondet_u64(); ntt120_vec_znx_idft_avx(m, r, rs, a, as, t); VACUITY_CANARY(); }
void h_ntt120_idft_tmp_a(void) { const MODULE* m = ntt120_module(); VEC_ZNX_BIG* r; VEC_ZNX_DFT* a; uint64_t rs, as; G = nondet_u64(); GL = nondet_u64(); ntt120_vec_znx_idft_tmp_a_avx(m, r, rs, a, as); VACUITY_CANARY(); }

#define GH() do { G = nondet_u64(); GL = nondet_u64(); } while (0)
void h_dft(void) { const MODULE* m; VEC_ZNX_DFT* r; const int64_t* a; uint64_t rs, as, asl; GH(); fft64_vec_znx_dft(m, r, rs, a, as, asl); VACUITY_CANARY(); }
void h_idft(void) { const MODULE* m; VEC_ZNX_BIG* r; const VEC_ZNX_DFT* a; uint64_t rs, as; uint8_t* t; GH(); fft64_vec_znx_idft(m, r, rs, a, as, t); VACUITY_CANARY(); }
void h_idft_tmp_a(void) { const MODULE* m; VEC_ZNX_BIG* r; VEC_ZNX_DFT* a; uint64_t rs, as; GH(); fft64_vec_znx_idft_tmp_a(m, r, rs, a, as); VACUITY_CANARY(); }
void h_svp_prepare(void) { const MODULE* m; SVP_PPOL* p; const int64_t* a; GH(); fft64_svp_prepare_ref(m, p, a); VACUITY_CANARY(); }
void h_svp_apply(void) { const MODULE* m; const VEC_ZNX_DFT* r; const SVP_PPOL* p; const int64_t* a; uint64_t rs, as, asl; GH(); fft64_svp_apply_dft_ref(m, r, rs, p, a, as, asl); VACUITY_CANARY(); }
void h_small_product(void) { const MODULE* m; int64_t* r; const int64_t *a, *b; uint8_t* t; GH(); fft64_znx_small_single_product(m, r, a, b, t); VACUITY_CANARY(); }
void h_tmp_bytes(void) {
  // the scratch formulas the contracts above use are the real *_tmp_bytes functions' results
  MODULE mod; mod.nn = nondet_u64(); __CPROVER_assume(mod.nn <= MAXN);
  __CPROVER_assert(fft64_znx_small_single_product_tmp_bytes(&mod) == 2 * mod.nn * 8, "znx_small_single_product_tmp_bytes == 2N doubles");
  __CPROVER_assert(fft64_vec_znx_idft_tmp_bytes(&mod) == 0, "fft64 vec_znx_idft needs no scratch");
  __CPROVER_assert(vec_znx_normalize_base2k_tmp_bytes_ref(&mod) == mod.nn * 8, "normalize scratch == N int64");
  __CPROVER_assert(fft64_bytes_of_vec_znx_dft(&mod, 3) == 3 * mod.nn * 8 && fft64_bytes_of_vec_znx_big(&mod, 3) == 3 * mod.nn * 8 && fft64_bytes_of_svp_ppol(&mod) == mod.nn * 8, "bytes_of_* == size*N*8");
  VACUITY_CANARY();
}
