// C13 / C17: pointwise complex multiply and multiply-accumulate kernels (reim, cplx, reim4 layouts; ref and FMA):
//  (1) in-place call (r==a or r==b) gives bit-for-bit the result of the out-of-place call (C13, every variant);
//  (2) the reference kernels return the complex product written from the definition (a+ib)(c+id) = (ac-bd) + i(ad+bc)
//      with IEEE operations in that association (a sign or operand swap fails) (C17).
// S4: the complex dimension M is concrete and small (loops unwound), every operand value is symbolic.  A loop-contract
// (S1) version makes SAT prove two multiplier circuits equal on equal inputs and times out.
#include "vcommon.h"
#include <math.h>
#include "reim/reim_fft_private.h"
#include "cplx/cplx_fft_private.h"
#include "reim4/reim4_fftvec_private.h"
#ifndef M
#define M 4
#endif
#ifndef FV
#define FV 0
#endif
#ifndef ALIAS
#define ALIAS 1 /* 1: r==a, 2: r==b */
#endif
#ifndef ACC
#define ACC 0   /* 0: mul, 1: addmul */
#endif
#define BITS(v, i) (((const uint64_t*)(v))[i])
static void call(double* r, const double* a, const double* b) {
#if FV == 0
  REIM_FFTVEC_MUL_PRECOMP pm; pm.m = M; REIM_FFTVEC_ADDMUL_PRECOMP pa; pa.m = M;
  if (ACC) reim_fftvec_addmul_ref(&pa, r, a, b); else reim_fftvec_mul_ref(&pm, r, a, b);
#elif FV == 1
  REIM_FFTVEC_MUL_PRECOMP pm; pm.m = M; REIM_FFTVEC_ADDMUL_PRECOMP pa; pa.m = M;
  if (ACC) reim_fftvec_addmul_fma(&pa, r, a, b); else reim_fftvec_mul_fma(&pm, r, a, b);
#elif FV == 2
  CPLX_FFTVEC_MUL_PRECOMP pm; pm.m = M; CPLX_FFTVEC_ADDMUL_PRECOMP pa; pa.m = M;
  if (ACC) cplx_fftvec_addmul_ref(&pa, r, a, b); else cplx_fftvec_mul_ref(&pm, r, a, b);
#elif FV == 3
  REIM4_FFTVEC_MUL_PRECOMP pm; pm.m = M; REIM4_FFTVEC_ADDMUL_PRECOMP pa; pa.m = M;
  if (ACC) reim4_fftvec_addmul_ref(&pa, r, a, b); else reim4_fftvec_mul_ref(&pm, r, a, b);
#else
  REIM4_FFTVEC_MUL_PRECOMP pm; pm.m = M; REIM4_FFTVEC_ADDMUL_PRECOMP pa; pa.m = M;
  if (ACC) reim4_fftvec_addmul_fma(&pa, r, a, b); else reim4_fftvec_mul_fma(&pm, r, a, b);
#endif
}
// index of the real / imaginary part of complex number g in each layout
#if FV == 2
#define RE(g) (2 * (g))
#define IM(g) (2 * (g) + 1)
#elif FV >= 3
#define RE(g) (8 * ((g) / 4) + (g) % 4)
#define IM(g) (8 * ((g) / 4) + 4 + (g) % 4)
#else
#define RE(g) (g)
#define IM(g) ((g) + M)
#endif
#define SAME(x, y) ((x) == (y) || (isnan(x) && isnan(y)))
void h_fftvec(void) {
  static double a[2 * M], b[2 * M], ro[2 * M];
  for (int i = 0; i < 2 * M; ++i) { a[i] = nondet_double(); b[i] = nondet_double(); ro[i] = nondet_double(); }
  // accumulate variants: the out-of-place accumulator starts as a copy of the aliased operand
  if (ACC) for (int i = 0; i < 2 * M; ++i) ro[i] = (ALIAS == 1) ? a[i] : b[i];
  // the out-of-place call runs FIRST and reads the very same cells the in-place call reads afterwards, so that both
  // results are built from the same solver terms (copying the inputs would make SAT compare two multiplier circuits)
  call(ro, a, b);
  double* r1 = (ALIAS == 1) ? a : b;
  double a0[2 * M], b0[2 * M];
  for (int i = 0; i < 2 * M; ++i) { a0[i] = a[i]; b0[i] = b[i]; }
  if (ALIAS == 1) call(a, a, b); else call(b, a, b);                // in place
  uint64_t g = nondet_u64();
  __CPROVER_assume(g < M);
  __CPROVER_assert(BITS(r1, RE(g)) == BITS(ro, RE(g)) && BITS(r1, IM(g)) == BITS(ro, IM(g)), "in-place result equals out-of-place result bit for bit");
#if FV == 0 || FV == 2 || FV == 3
  {
    double ar = a0[RE(g)], ai = a0[IM(g)], br = b0[RE(g)], bi = b0[IM(g)];
    double re = ar * br - ai * bi, im = ar * bi + ai * br;
    double base_re = ACC ? ((ALIAS == 1) ? ar : br) : 0.0, base_im = ACC ? ((ALIAS == 1) ? ai : bi) : 0.0;
    double wre = ACC ? base_re + re : re, wim = ACC ? base_im + im : im;
    __CPROVER_assert(SAME(ro[RE(g)], wre) && SAME(ro[IM(g)], wim), "reference kernel returns the complex product (accumulated) by definition");
  }
#endif
  VACUITY_CANARY();
}
