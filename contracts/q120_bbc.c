// C10 / C04: q120 vector-matrix product b x c (reference), q120_arithmetic_ref.c.
//   step   accum_mul_q120_bc   : V_k(res') == V_k(res) + x_lo*y_lo + x_hi*y_hi exactly (128-bit), V_k = res[2k] + 2^32*res[2k+1],
//                                each word grows by at most 2^33-2 (no 64-bit wrap while below the budget)           [S2, plain harness]
//   final  accum_to_q120b      : res[k] == s0 + (s1 mod 2^h)*P1[k] + (s1 >> h)*P2[k] exactly, no wrap, for s within the
//                                10000-term budget and the table of the real constructor                             [S2, plain harness]
//   outer  q120_vec_mat1col_product_bbc_ref : for every ell <= 10000, ghost accumulators ACC[k] (sum of the exact step terms,
//                                updated by the step's contract) satisfy V_k(s) == ACC[k]; every word <= i*(2^33-2)   [S1, dfcc]
// Congruences modulo q_k (P1 == 2^32, P2 == 2^(32+h), y_hi == y_lo*2^32 for layout c) are integer lemmas (lemmas/q120_lemmas.py).
#include "vcommon.h"
#include "q120/q120_arithmetic.h"
#include "q120/q120_arithmetic_private.h"
#include "q120/q120_common.h"
#ifndef BBC_H
#define BBC_H 27 /* precomp->h of the real constructor; the job generator passes the value it reads natively (S5) */
#endif
#define STEP_MAX ((((uint64_t)1) << 33) - 2)
#define BUDGET (10000ULL * STEP_MAX)
GHOST u128 ACC[4];      // exact sums of the step terms
GHOST uint64_t GS0[4];  // ghost snapshot of the accumulator words consumed by accum_to_q120b
GHOST uint64_t GS1[4];
GHOST uint64_t GK;
#define F(name) __CPROVER_file_local_q120_arithmetic_ref_c_##name
void F(accum_mul_q120_bc)(uint64_t res[8], const uint32_t x_layb[8], const uint32_t y_layc[8]);
void F(accum_to_q120b)(uint64_t res[4], const uint64_t s[8], const q120_mat1col_product_bbc_precomp* precomp);
void q120_vec_mat1col_product_bbc_ref(q120_mat1col_product_bbc_precomp* precomp, const uint64_t ell, q120b* const res, const q120b* const x, const q120c* const y);

#define TERM(x, y, k) ((u128)(x)[2 * (k)] * (u128)(y)[2 * (k)] + (u128)(x)[2 * (k) + 1] * (u128)(y)[2 * (k) + 1])
#define VK(r, k) ((u128)(r)[2 * (k)] + (((u128)(r)[2 * (k) + 1]) << 32))
#define VKOLD(r, k) ((u128)__CPROVER_old((r)[2 * (k)]) + (((u128)__CPROVER_old((r)[2 * (k) + 1])) << 32))
// contract used at the call sites of the outer function (replace): word bounds + the exact value RELATION through a ghost
// term GTERM[k] (the amount V_k grows by in this call); that GTERM[k] == x_lo*y_lo + x_hi*y_hi is what the S2 harness
// h_accum_mul proves about the real step (V(res') - V(res) == TERM) -- the outer proof only needs that BOTH V_k and the ghost
// accumulator ACC[k] grow by the same amount, so the 128-bit multipliers stay out of its formula (#ifdef LEAN_STEP).
GHOST u128 GTERM[4];
void accum_mul__c(uint64_t res[8], const uint32_t x_layb[8], const uint32_t y_layc[8])
__CPROVER_requires(__CPROVER_is_fresh(res, 64) && __CPROVER_is_fresh(x_layb, 32) && __CPROVER_is_fresh(y_layc, 32))
__CPROVER_requires(res[0] <= BUDGET - STEP_MAX && res[1] <= BUDGET - STEP_MAX && res[2] <= BUDGET - STEP_MAX && res[3] <= BUDGET - STEP_MAX && res[4] <= BUDGET - STEP_MAX && res[5] <= BUDGET - STEP_MAX && res[6] <= BUDGET - STEP_MAX && res[7] <= BUDGET - STEP_MAX)
__CPROVER_assigns(__CPROVER_object_upto(res, 64), __CPROVER_object_whole(ACC), __CPROVER_object_whole(GTERM))
__CPROVER_ensures(res[0] - __CPROVER_old(res[0]) <= STEP_MAX && res[1] - __CPROVER_old(res[1]) <= STEP_MAX && res[2] - __CPROVER_old(res[2]) <= STEP_MAX && res[3] - __CPROVER_old(res[3]) <= STEP_MAX)
__CPROVER_ensures(res[4] - __CPROVER_old(res[4]) <= STEP_MAX && res[5] - __CPROVER_old(res[5]) <= STEP_MAX && res[6] - __CPROVER_old(res[6]) <= STEP_MAX && res[7] - __CPROVER_old(res[7]) <= STEP_MAX)
__CPROVER_ensures(res[0] >= __CPROVER_old(res[0]) && res[1] >= __CPROVER_old(res[1]) && res[2] >= __CPROVER_old(res[2]) && res[3] >= __CPROVER_old(res[3]) && res[4] >= __CPROVER_old(res[4]) && res[5] >= __CPROVER_old(res[5]) && res[6] >= __CPROVER_old(res[6]) && res[7] >= __CPROVER_old(res[7]))
__CPROVER_ensures(VK(res, 0) == VKOLD(res, 0) + GTERM[0] && VK(res, 1) == VKOLD(res, 1) + GTERM[1] && VK(res, 2) == VKOLD(res, 2) + GTERM[2] && VK(res, 3) == VKOLD(res, 3) + GTERM[3])
__CPROVER_ensures(ACC[0] == __CPROVER_old(ACC[0]) + GTERM[0] && ACC[1] == __CPROVER_old(ACC[1]) + GTERM[1] && ACC[2] == __CPROVER_old(ACC[2]) + GTERM[2] && ACC[3] == __CPROVER_old(ACC[3]) + GTERM[3])
#ifndef LEAN_STEP
__CPROVER_ensures(GTERM[0] == TERM(x_layb, y_layc, 0) && GTERM[1] == TERM(x_layb, y_layc, 1) && GTERM[2] == TERM(x_layb, y_layc, 2) && GTERM[3] == TERM(x_layb, y_layc, 3))
#endif
;
#define MASK2 ((((uint64_t)1) << BBC_H) - 1)
#define WF_BBC(p) ((p)->h == BBC_H && (p)->s2l_pow_red[0] < Q1 && (p)->s2l_pow_red[1] < Q2 && (p)->s2l_pow_red[2] < Q3 && (p)->s2l_pow_red[3] < Q4 && (p)->s2h_pow_red[0] < Q1 && (p)->s2h_pow_red[1] < Q2 && (p)->s2h_pow_red[2] < Q3 && (p)->s2h_pow_red[3] < Q4)
#define TOQ(s, p, k) ((u128)(s)[2 * (k)] + (u128)((s)[2 * (k) + 1] & MASK2) * (u128)(p)->s2l_pow_red[k] + (u128)((s)[2 * (k) + 1] >> BBC_H) * (u128)(p)->s2h_pow_red[k])
void accum_to_q120b__c(uint64_t res[4], const uint64_t s[8], const q120_mat1col_product_bbc_precomp* precomp)
__CPROVER_requires(__CPROVER_is_fresh(res, 32) && __CPROVER_is_fresh(s, 64) && __CPROVER_is_fresh(precomp, sizeof(*precomp)) && WF_BBC(precomp))
__CPROVER_requires(s[0] <= BUDGET && s[1] <= BUDGET && s[2] <= BUDGET && s[3] <= BUDGET && s[4] <= BUDGET && s[5] <= BUDGET && s[6] <= BUDGET && s[7] <= BUDGET)
__CPROVER_assigns(__CPROVER_object_upto(res, 32), __CPROVER_object_whole(GS0), __CPROVER_object_whole(GS1))
__CPROVER_ensures((u128)res[0] == TOQ(s, precomp, 0) && (u128)res[1] == TOQ(s, precomp, 1) && (u128)res[2] == TOQ(s, precomp, 2) && (u128)res[3] == TOQ(s, precomp, 3))
__CPROVER_ensures(GS0[0] == s[0] && GS1[0] == s[1] && GS0[1] == s[2] && GS1[1] == s[3] && GS0[2] == s[4] && GS1[2] == s[5] && GS0[3] == s[6] && GS1[3] == s[7])
;
#define P1K(p) ((p)->s2l_pow_red[GK])
#define P2K(p) ((p)->s2h_pow_red[GK])
void bbc_ref__c(q120_mat1col_product_bbc_precomp* precomp, const uint64_t ell, q120b* const res, const q120b* const x, const q120c* const y)
#ifndef LANE
#define LANE 0
#endif
__CPROVER_requires(ell <= MAX_ELL && GK == LANE && ACC[0] == 0 && ACC[1] == 0 && ACC[2] == 0 && ACC[3] == 0)
__CPROVER_requires(__CPROVER_is_fresh(precomp, sizeof(*precomp)) && WF_BBC(precomp))
__CPROVER_requires(__CPROVER_is_fresh(res, 32) && __CPROVER_is_fresh(x, ell * 32) && __CPROVER_is_fresh(y, ell * 32))
__CPROVER_assigns(__CPROVER_object_upto(res, 32), __CPROVER_object_whole(ACC), __CPROVER_object_whole(GTERM), __CPROVER_object_whole(GS0), __CPROVER_object_whole(GS1))
__CPROVER_ensures((u128)GS0[GK] + (((u128)GS1[GK]) << 32) == ACC[GK]) /*@bbc_accumulator_words_sum_to_exact_sum_of_terms:C10,C04*/
__CPROVER_ensures(GS0[GK] <= BUDGET && GS1[GK] <= BUDGET) /*@bbc_accumulators_within_budget_no_wrap:C04,C10*/
__CPROVER_ensures((u128)((const uint64_t*)res)[GK] == (u128)GS0[GK] + (u128)(GS1[GK] & MASK2) * (u128)P1K(precomp) + (u128)(GS1[GK] >> BBC_H) * (u128)P2K(precomp)) /*@bbc_result_is_recombination_without_wrap:C10,C04*/
;
void h_bbc_ref(void) {
  q120_mat1col_product_bbc_precomp* p; uint64_t ell; q120b* r; const q120b* x; const q120c* y;
  GK = nondet_u64();
  for (int k = 0; k < 4; ++k) ACC[k] = 0;
  q120_vec_mat1col_product_bbc_ref(p, ell, r, x, y);
  VACUITY_CANARY();
}
// ---- S2 plain harnesses for the two static lane functions (dfcc would havoc the function-local static MASK32)
void h_accum_mul(void) {
  uint64_t res[8], old[8]; uint32_t x[8], y[8];
  for (int i = 0; i < 8; ++i) { res[i] = nondet_u64(); x[i] = nondet_u32(); y[i] = nondet_u32(); __CPROVER_assume(res[i] <= BUDGET - STEP_MAX); old[i] = res[i]; }
  F(accum_mul_q120_bc)(res, x, y);
#ifndef LANE
#define LANE 0
#endif
  const int k = LANE;   // one run per lane: a symbolic lane index makes the 128-bit products array-indexed (timeout)
  __CPROVER_assert(res[2 * k] >= old[2 * k] && res[2 * k] - old[2 * k] <= STEP_MAX && res[2 * k + 1] >= old[2 * k + 1] && res[2 * k + 1] - old[2 * k + 1] <= STEP_MAX, "accum_mul: each accumulator word grows by at most 2^33-2 (no wrap)");
  __CPROVER_assert(VK(res, k) == VK(old, k) + TERM(x, y, k), "accum_mul: V(res') == V(res) + x_lo*y_lo + x_hi*y_hi exactly");
  VACUITY_CANARY();
}
void h_accum_to(void) {
  uint64_t res[4], s[8]; q120_mat1col_product_bbc_precomp p;
  p.h = nondet_u64();
  for (int i = 0; i < 8; ++i) { s[i] = nondet_u64(); __CPROVER_assume(s[i] <= BUDGET); }
  for (int i = 0; i < 4; ++i) { p.s2l_pow_red[i] = nondet_u64(); p.s2h_pow_red[i] = nondet_u64(); }
  __CPROVER_assume(WF_BBC(&p));
  F(accum_to_q120b)(res, s, &p);
  const int k = LANE;
  __CPROVER_assert((u128)res[k] == TOQ(s, &p, k), "accum_to_q120b: res[k] == s0 + (s1 mod 2^h)*P1 + (s1>>h)*P2 without 64-bit wrap");
  VACUITY_CANARY();
}

// ---- ghost observers for the a*a / b*b products (the two guarded hooks of q120_arithmetic_ref.c, -DSPQLIOS_VERIF): the bodies
// below are verification state only.  ACCW is the exact sum over the terms of lane LANE of p0 + (p1+p2)*2^32 + p3*2^64 (for
// a*a: of t = p0); GXV, GYV are the operands of the ghost term GTI; GF* the accumulators the recombination consumed.
typedef unsigned __CPROVER_bitvector[192] wide_t;
GHOST wide_t ACCW;
GHOST uint64_t GTI;
GHOST uint64_t GF1;
GHOST uint64_t GF2;
GHOST uint64_t GF3;
GHOST uint64_t GF4;
#ifndef TERM_KIND
#define TERM_KIND 0 /* 0: a*a (one product x*y), 1: b*b (four partial products of the 32-bit halves) */
#endif
GHOST uint64_t GXV;
GHOST uint64_t GYV;
void spqlios_verif_q120_term(uint64_t i, uint64_t j, uint64_t x, uint64_t y, uint64_t p0, uint64_t p1, uint64_t p2, uint64_t p3) {
  if (j == LANE) {
    // the reported partial products are those of the reported operands (stated where the operands are the very expressions the code multiplied)
#if TERM_KIND == 0
    __CPROVER_assert(p0 == x * y && p1 == 0 && p2 == 0 && p3 == 0, "a*a: the term is the product of its operands");
#else
    __CPROVER_assert(p0 == (x & 0xFFFFFFFFull) * (y & 0xFFFFFFFFull) && p1 == (x & 0xFFFFFFFFull) * (y >> 32) && p2 == (x >> 32) * (y & 0xFFFFFFFFull) && p3 == (x >> 32) * (y >> 32), "b*b: the four partial products are xl*yl, xl*yh, xh*yl, xh*yh of the operands");
#endif
#ifndef GHOST_SUM_OFF
    ACCW += (wide_t)p0 + (((wide_t)p1 + (wide_t)p2) << 32) + (((wide_t)p3) << 64);
    if (i == 4 * GTI) { GXV = x; GYV = y; }
#endif
  }
}
void spqlios_verif_q120_final(uint64_t j, uint64_t s1, uint64_t s2, uint64_t s3, uint64_t s4) {
  if (j == LANE) { GF1 = s1; GF2 = s2; GF3 = s3; GF4 = s4; }
}
#define GHOSTS_ASSIGNED ACCW, GXV, GYV, GF1, GF2, GF3, GF4

// ---- a*a product (reference): no 64-bit wrap for every ell <= 10000 (C04 range invariant; no ghost sum: the step is inline
// and the functional statement would need a repository hook).  acc1 collects the H low bits of each product, acc2 the 64-H
// high bits; the result acc1 + acc2*h_pow_red stays below 2^64.  H and h_pow_red < q come from the real constructor (S5).
#ifndef BAA_H
#define BAA_H 47
#endif
void q120_vec_mat1col_product_baa_ref(q120_mat1col_product_baa_precomp* precomp, const uint64_t ell, q120b* const res, const q120a* const x, const q120a* const y);
#define BAA_LO ((((uint64_t)1) << BAA_H) - 1)
#define BAA_HI ((((uint64_t)1) << (64 - BAA_H)) - 1)
void baa_ref__c(q120_mat1col_product_baa_precomp* precomp, const uint64_t ell, q120b* const res, const q120a* const x, const q120a* const y)
__CPROVER_requires(ell <= MAX_ELL && GK < 4)
__CPROVER_requires(__CPROVER_is_fresh(precomp, sizeof(*precomp)) && precomp->h == BAA_H && precomp->h_pow_red[0] < Q1 && precomp->h_pow_red[1] < Q2 && precomp->h_pow_red[2] < Q3 && precomp->h_pow_red[3] < Q4)
__CPROVER_requires(__CPROVER_is_fresh(res, 32) && __CPROVER_is_fresh(x, ell * 32) && __CPROVER_is_fresh(y, ell * 32))
__CPROVER_requires(GK == LANE && ACCW == 0 && GTI < ell)
__CPROVER_assigns(__CPROVER_object_upto(res, 32), GHOSTS_ASSIGNED)
__CPROVER_ensures((u128)((const uint64_t*)res)[GK] <= (u128)MAX_ELL * BAA_LO + (u128)MAX_ELL * BAA_HI * (u128)Q1) /*@baa_result_below_2_64_no_wrap:C04*/
__CPROVER_ensures((wide_t)GF1 + (((wide_t)GF2) << BAA_H) == ACCW) /*@baa_accumulators_hold_the_exact_sum_of_the_products:C10,C04*/
__CPROVER_ensures(((const uint64_t*)res)[LANE] == GF1 + GF2 * precomp->h_pow_red[LANE]) /*@baa_result_is_acc1_plus_acc2_times_2h_mod_q:C10*/
__CPROVER_ensures(GXV == ((const uint64_t*)x)[4 * GTI + LANE] && GYV == ((const uint64_t*)y)[4 * GTI + LANE]) /*@baa_term_i_is_formed_from_x_i_and_y_i:C10*/
;
void h_baa_ref(void) {
  q120_mat1col_product_baa_precomp* p; uint64_t ell; q120b* r; const q120a *x, *y;
  GK = nondet_u64(); ACCW = 0; GTI = nondet_u64();
  q120_vec_mat1col_product_baa_ref(p, ell, r, x, y);
  VACUITY_CANARY();
}

// ---- b*b product: range / no-wrap proof for every ell <= 10000 (same shape as a*a above: 4-lane loops unwound before
// instrumentation, outer loop contract with the bounds s1,s4 <= i*(2^32-1), s2,s3 <= 3*i*(2^32-1); every unsigned + and * of
// the function carries CBMC's overflow check).  Operands are ANY 64-bit lanes (layout b is lazy).  Table: h from the real
// constructor (S5), reduced powers below their primes, s1h_pow_red == 2^h.
#ifndef BBB_H
#define BBB_H 24
#endif
void q120_vec_mat1col_product_bbb_ref(q120_mat1col_product_bbb_precomp* precomp, const uint64_t ell, q120b* const res, const q120b* const x, const q120b* const y);
#define BBB_M2 ((((uint64_t)1) << BBB_H) - 1)
#define XB (((const uint64_t*)x)[4 * GTI + LANE])
#define YB (((const uint64_t*)y)[4 * GTI + LANE])
#define BBB_TAB_OK(f) (precomp->f[0] < Q1 && precomp->f[1] < Q2 && precomp->f[2] < Q3 && precomp->f[3] < Q4)
void bbb_ref__c(q120_mat1col_product_bbb_precomp* precomp, const uint64_t ell, q120b* const res, const q120b* const x, const q120b* const y)
__CPROVER_requires(ell <= MAX_ELL && GK < 4)
__CPROVER_requires(__CPROVER_is_fresh(precomp, sizeof(*precomp)) && precomp->h == BBB_H)
__CPROVER_requires(precomp->s1h_pow_red[0] == ((uint64_t)1 << BBB_H) && precomp->s1h_pow_red[1] == ((uint64_t)1 << BBB_H) && precomp->s1h_pow_red[2] == ((uint64_t)1 << BBB_H) && precomp->s1h_pow_red[3] == ((uint64_t)1 << BBB_H))
__CPROVER_requires(BBB_TAB_OK(s2l_pow_red) && BBB_TAB_OK(s2h_pow_red) && BBB_TAB_OK(s3l_pow_red) && BBB_TAB_OK(s3h_pow_red) && BBB_TAB_OK(s4l_pow_red) && BBB_TAB_OK(s4h_pow_red))
__CPROVER_requires(__CPROVER_is_fresh(res, 32) && __CPROVER_is_fresh(x, ell * 32) && __CPROVER_is_fresh(y, ell * 32))
__CPROVER_requires(GK == LANE && ACCW == 0 && GTI < ell)
__CPROVER_assigns(__CPROVER_object_upto(res, 32), GHOSTS_ASSIGNED)
__CPROVER_ensures(ell == 0 ==> ((const uint64_t*)res)[GK] == 0) /*@bbb_empty_product_is_zero:C10*/
#ifndef GHOST_SUM_OFF
__CPROVER_ensures((wide_t)GF1 + (((wide_t)GF2) << 32) + (((wide_t)GF3) << 64) + (((wide_t)GF4) << 96) == ACCW) /*@bbb_accumulators_hold_the_exact_sum_of_the_partial_products:C10,C04*/
__CPROVER_ensures(((const uint64_t*)res)[LANE] == (GF1 & BBB_M2) + (GF1 >> BBB_H) * precomp->s1h_pow_red[LANE] + (GF2 & BBB_M2) * precomp->s2l_pow_red[LANE] + (GF2 >> BBB_H) * precomp->s2h_pow_red[LANE]
                  + (GF3 & BBB_M2) * precomp->s3l_pow_red[LANE] + (GF3 >> BBB_H) * precomp->s3h_pow_red[LANE] + (GF4 & BBB_M2) * precomp->s4l_pow_red[LANE] + (GF4 >> BBB_H) * precomp->s4h_pow_red[LANE]) /*@bbb_result_is_the_recombination_of_s1_to_s4:C10*/
__CPROVER_ensures(GXV == XB && GYV == YB) /*@bbb_term_i_partial_products_are_those_of_x_i_and_y_i:C10*/
#endif
;
void h_bbb_ref(void) {
  q120_mat1col_product_bbb_precomp* p; uint64_t ell; q120b* r; const q120b *x, *y;
  GK = nondet_u64(); ACCW = 0; GTI = nondet_u64();
  q120_vec_mat1col_product_bbb_ref(p, ell, r, x, y);
  VACUITY_CANARY();
}

// ---- two-coefficient block forms q120x2_vec_mat{1col,2cols}_product_bbc_ref (S1, every ell <= 10000).  Same step and
// recombination functions as above, called NROWS times per iteration on the rows of a local 2-D accumulator.  Ghost state: a
// call counter (iteration CALLI, row CALLR), the exact sum ACC of the tracked row GROW, the operand pointers of the tracked
// row's call in iteration GI (ties "term i of row r is formed from x[i][r&1], y[i][r]"), and for the recombination the row
// counter FINR with the snapshot of the tracked row's words and destination.
#ifndef NROWS
#define NROWS 2
#endif
#ifndef GROW
#define GROW 0
#endif
GHOST uint64_t CALLI;
GHOST uint64_t CALLR;
GHOST uint64_t FINR;
GHOST uint64_t GI;
GHOST const void* GX;
GHOST const void* GY;
GHOST const void* GRES;
void q120x2_vec_mat1col_product_bbc_ref(q120_mat1col_product_bbc_precomp* precomp, const uint64_t ell, q120b* const res, const q120b* const x, const q120c* const y);
void q120x2_vec_mat2cols_product_bbc_ref(q120_mat1col_product_bbc_precomp* precomp, const uint64_t ell, q120b* const res, const q120b* const x, const q120c* const y);
#define WORDS_GROW_BOUNDED(res) (res[0] >= __CPROVER_old(res[0]) && res[0] - __CPROVER_old(res[0]) <= STEP_MAX && res[1] >= __CPROVER_old(res[1]) && res[1] - __CPROVER_old(res[1]) <= STEP_MAX \
  && res[2] >= __CPROVER_old(res[2]) && res[2] - __CPROVER_old(res[2]) <= STEP_MAX && res[3] >= __CPROVER_old(res[3]) && res[3] - __CPROVER_old(res[3]) <= STEP_MAX \
  && res[4] >= __CPROVER_old(res[4]) && res[4] - __CPROVER_old(res[4]) <= STEP_MAX && res[5] >= __CPROVER_old(res[5]) && res[5] - __CPROVER_old(res[5]) <= STEP_MAX \
  && res[6] >= __CPROVER_old(res[6]) && res[6] - __CPROVER_old(res[6]) <= STEP_MAX && res[7] >= __CPROVER_old(res[7]) && res[7] - __CPROVER_old(res[7]) <= STEP_MAX)
void accum_mul_x2__c(uint64_t res[8], const uint32_t x_layb[8], const uint32_t y_layc[8])
__CPROVER_requires(__CPROVER_w_ok(res, 64) && __CPROVER_r_ok(x_layb, 32) && __CPROVER_r_ok(y_layc, 32) && CALLR < NROWS)
__CPROVER_requires(res[0] <= BUDGET - STEP_MAX && res[1] <= BUDGET - STEP_MAX && res[2] <= BUDGET - STEP_MAX && res[3] <= BUDGET - STEP_MAX && res[4] <= BUDGET - STEP_MAX && res[5] <= BUDGET - STEP_MAX && res[6] <= BUDGET - STEP_MAX && res[7] <= BUDGET - STEP_MAX)
__CPROVER_assigns(__CPROVER_object_upto(res, 64), __CPROVER_object_whole(ACC), __CPROVER_object_whole(GTERM), CALLI, CALLR, GX, GY)
__CPROVER_ensures(WORDS_GROW_BOUNDED(res))
__CPROVER_ensures(__CPROVER_old(CALLR) == GROW ==> (VK(res, LANE) == VKOLD(res, LANE) + GTERM[LANE] && ACC[LANE] == __CPROVER_old(ACC[LANE]) + GTERM[LANE]))
__CPROVER_ensures(__CPROVER_old(CALLR) != GROW ==> ACC[LANE] == __CPROVER_old(ACC[LANE]))
__CPROVER_ensures((__CPROVER_old(CALLR) == GROW && __CPROVER_old(CALLI) == GI) ? (GX == (const void*)x_layb && GY == (const void*)y_layc) : (GX == __CPROVER_old(GX) && GY == __CPROVER_old(GY)))
__CPROVER_ensures(__CPROVER_old(CALLR) + 1 == NROWS ? (CALLR == 0 && CALLI == __CPROVER_old(CALLI) + 1) : (CALLR == __CPROVER_old(CALLR) + 1 && CALLI == __CPROVER_old(CALLI)))
;
void accum_to_q120b_x2__c(uint64_t res[4], const uint64_t s[8], const q120_mat1col_product_bbc_precomp* precomp)
__CPROVER_requires(__CPROVER_w_ok(res, 32) && __CPROVER_r_ok(s, 64) && __CPROVER_r_ok(precomp, sizeof(*precomp)) && WF_BBC(precomp))
__CPROVER_requires(s[0] <= BUDGET && s[1] <= BUDGET && s[2] <= BUDGET && s[3] <= BUDGET && s[4] <= BUDGET && s[5] <= BUDGET && s[6] <= BUDGET && s[7] <= BUDGET)
__CPROVER_assigns(__CPROVER_object_upto(res, 32), __CPROVER_object_whole(GS0), __CPROVER_object_whole(GS1), FINR, GRES)
__CPROVER_ensures((u128)res[0] == TOQ(s, precomp, 0) && (u128)res[1] == TOQ(s, precomp, 1) && (u128)res[2] == TOQ(s, precomp, 2) && (u128)res[3] == TOQ(s, precomp, 3))
__CPROVER_ensures(__CPROVER_old(FINR) == GROW ? (GS0[LANE] == s[2 * LANE] && GS1[LANE] == s[2 * LANE + 1] && GRES == (const void*)res) : (GS0[LANE] == __CPROVER_old(GS0[LANE]) && GS1[LANE] == __CPROVER_old(GS1[LANE]) && GRES == __CPROVER_old(GRES)))
__CPROVER_ensures(FINR == __CPROVER_old(FINR) + 1)
;
#define XBYTES (NROWS == 1 ? 32 : 64) /* NROWS == 1: the plain b*c product under the same contracts (operand tie) */
void bbc_x2_ref__c(q120_mat1col_product_bbc_precomp* precomp, const uint64_t ell, q120b* const res, const q120b* const x, const q120c* const y)
__CPROVER_requires(ell <= MAX_ELL && ACC[LANE] == 0 && CALLI == 0 && CALLR == 0 && FINR == 0 && GI < ell)
__CPROVER_requires(__CPROVER_is_fresh(precomp, sizeof(*precomp)) && WF_BBC(precomp))
__CPROVER_requires(__CPROVER_is_fresh(res, 32 * NROWS) && __CPROVER_is_fresh(x, ell * XBYTES) && __CPROVER_is_fresh(y, ell * 32 * NROWS))
__CPROVER_assigns(__CPROVER_object_upto(res, 32 * NROWS), __CPROVER_object_whole(ACC), __CPROVER_object_whole(GTERM), __CPROVER_object_whole(GS0), __CPROVER_object_whole(GS1), CALLI, CALLR, FINR, GX, GY, GRES)
__CPROVER_ensures((u128)GS0[LANE] + (((u128)GS1[LANE]) << 32) == ACC[LANE]) /*@bbc_x2_accumulator_words_of_row_sum_to_exact_sum_of_terms:C10,C04*/
__CPROVER_ensures(GS0[LANE] <= BUDGET && GS1[LANE] <= BUDGET) /*@bbc_x2_accumulators_within_budget_no_wrap:C04,C10*/
__CPROVER_ensures(GRES == (const void*)((const uint64_t*)res + 4 * GROW)) /*@bbc_x2_row_r_is_stored_at_result_block_r:C10*/
__CPROVER_ensures((u128)((const uint64_t*)res)[4 * GROW + LANE] == (u128)GS0[LANE] + (u128)(GS1[LANE] & MASK2) * (u128)precomp->s2l_pow_red[LANE] + (u128)(GS1[LANE] >> BBC_H) * (u128)precomp->s2h_pow_red[LANE]) /*@bbc_x2_result_is_recombination_without_wrap:C10,C04*/
__CPROVER_ensures(GX == (const void*)((const char*)x + XBYTES * GI + 32 * (GROW & 1)) && GY == (const void*)((const char*)y + 32 * NROWS * GI + 32 * GROW)) /*@bbc_x2_term_i_of_row_r_is_x_i_rmod2_times_y_i_r:C10*/
;
void h_bbc_x2_ref(void) {
  q120_mat1col_product_bbc_precomp* p; uint64_t ell; q120b* r; const q120b* x; const q120c* y;
  ACC[LANE] = 0; CALLI = 0; CALLR = 0; FINR = 0; GI = nondet_u64();
#if NROWS == 1
  q120_vec_mat1col_product_bbc_ref(p, ell, r, x, y);
#elif NROWS == 2
  q120x2_vec_mat1col_product_bbc_ref(p, ell, r, x, y);
#else
  q120x2_vec_mat2cols_product_bbc_ref(p, ell, r, x, y);
#endif
  VACUITY_CANARY();
}
