// Integer lemmas about the normalization spec functions (DESIGN 3.S6), discharged by CBMC on loop-free code over
// all values of the inputs, one run per k in 1..62 and per limb count AS in 1..4:
//   closed_form : the digits produced by the NRM_DIG/NRM_CAR recurrence are balanced and
//                 sum_i d_i*2^(k(AS-1-i)) == T (mod 2^(k*AS)),  T = sum_i a_i*2^(k(AS-1-i));
//   unique      : ANY balanced digits r_i with sum_i r_i*2^(k(AS-1-i)) == T (mod 2^(k*AS)) equal the d_i.
// Together: "the vector contract's recurrence" <=> "the unique balanced expansion of T mod 2^(k*AS)" (property C05).
#include "coeffs_contracts.h"
#ifndef AS
#define AS 2
#endif
#ifndef NRM_K
#define NRM_K 13
#endif
#define K NRM_K
typedef unsigned __CPROVER_bitvector[320] uw;
typedef __CPROVER_bitvector[320] sw;
#define W(x) ((uw)(sw)(x))
#define MODM ((((uw)1) << (AS * K)) - 1)
#define BAL(d) (-P2(K - 1) <= (d) && (d) < P2(K - 1))
void lemma_norm(void) {
  int64_t a[4], r[4];
  i128 d[4], c = 0;
  uw T = 0, D = 0, R = 0;
  for (int i = 0; i < AS; ++i) {
    a[i] = nondet_i64(); r[i] = nondet_i64();
    __CPROVER_assume(-P2(62) <= a[i] && a[i] <= P2(62));
  }
  for (int i = AS - 1; i >= 0; --i) {
    i128 x = (i128)a[i] + c;
    d[i] = NRM_DIG(x, K);
    c = NRM_CAR(x, K);
    __CPROVER_assert(BAL(d[i]), "lemma closed_form: recurrence digit is balanced");
    __CPROVER_assert(-P2(62) <= c && c <= P2(62), "lemma closed_form: carry stays in the precondition range of the next limb");
  }
  for (int i = 0; i < AS; ++i) {
    T += W(a[i]) << ((AS - 1 - i) * K);
    D += W(d[i]) << ((AS - 1 - i) * K);
    R += W(r[i]) << ((AS - 1 - i) * K);
  }
  __CPROVER_assert(((D - T) & MODM) == 0, "lemma closed_form: digits sum to T mod 2^(k*AS)");
  _Bool rbal = 1;
  for (int i = 0; i < AS; ++i) rbal = rbal && BAL(r[i]);
  if (rbal && ((R - T) & MODM) == 0) {
    for (int i = 0; i < AS; ++i) __CPROVER_assert(r[i] == d[i], "lemma unique: a balanced expansion of T is the recurrence's");
  }
  VACUITY_CANARY();
}
