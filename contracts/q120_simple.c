// C10: contracts for q120/q120_arithmetic_simple.c (layout conversions, additions).  Every post states that a machine
// word EQUALS an integer expression evaluated without wrap (128-bit spec arithmetic), lane by lane for ghost element G
// and ghost lane GK; congruences modulo the primes and the CRT identity are then integer lemmas over these expressions
// (lemmas/q120_lemmas.py, z3), with the constants read from the real header on every run.
#include "vcommon.h"
#include "q120/q120_arithmetic.h"
#include "q120/q120_common.h"
GHOST uint64_t G;
GHOST uint64_t GK;  // ghost lane 0..3
#define QK (GK == 0 ? (uint64_t)Q1 : GK == 1 ? (uint64_t)Q2 : GK == 2 ? (uint64_t)Q3 : (uint64_t)Q4)
#define U64(p) ((const uint64_t*)(p))
#define U32(p) ((const uint32_t*)(p))
#define REQ_G nn <= MAXN && G < nn && GK < 4

void add_bbb__c(uint64_t nn, q120b* const res, const q120b* const x, const q120b* const y)
__CPROVER_requires(REQ_G)
__CPROVER_requires(__CPROVER_is_fresh(res, nn * 32) && __CPROVER_is_fresh(x, nn * 32) && __CPROVER_is_fresh(y, nn * 32))
__CPROVER_assigns(__CPROVER_object_upto(res, nn * 32))
__CPROVER_ensures((u128)U64(res)[4 * G + GK] == (u128)(U64(x)[4 * G + GK] % (QK << 33)) + (u128)(U64(y)[4 * G + GK] % (QK << 33))) /*@add_bbb_no_wrap_sum_of_reduced:C10,C04*/
;
void add_ccc__c(uint64_t nn, q120c* const res, const q120c* const x, const q120c* const y)
__CPROVER_requires(REQ_G)
__CPROVER_requires(__CPROVER_is_fresh(res, nn * 32) && __CPROVER_is_fresh(x, nn * 32) && __CPROVER_is_fresh(y, nn * 32))
__CPROVER_assigns(__CPROVER_object_upto(res, nn * 32))
__CPROVER_ensures(U32(res)[8 * G + 2 * GK] == ((uint64_t)U32(x)[8 * G + 2 * GK] + (uint64_t)U32(y)[8 * G + 2 * GK]) % QK && U32(res)[8 * G + 2 * GK + 1] == ((uint64_t)U32(x)[8 * G + 2 * GK + 1] + (uint64_t)U32(y)[8 * G + 2 * GK + 1]) % QK) /*@add_ccc_sum_mod_q_both_words:C10*/
;
// frame-only contracts (every nn): memory safety and "writes only res"; the functional posts are in q120_simple_s4.c
#define FRAME(cname, RT, XT, RB, XB) void cname(uint64_t nn, RT* const res, const XT* const x) \
  __CPROVER_requires(nn <= MAXN) __CPROVER_requires(__CPROVER_is_fresh(res, nn * RB) && __CPROVER_is_fresh(x, nn * XB)) \
  __CPROVER_assigns(__CPROVER_object_upto(res, nn * RB))
FRAME(c_from_b_frame__c, q120c, q120b, 32, 32);
FRAME(b_from_znx64_frame__c, q120b, int64_t, 32, 8);
FRAME(c_from_znx64_frame__c, q120c, int64_t, 32, 8);
FRAME(b_to_znx128_frame__c, __int128_t, q120b, 16, 32);

#define H(hname, call, decls) void hname(void) { uint64_t nn; decls; G = nondet_u64(); GK = nondet_u64(); call; VACUITY_CANARY(); }
H(h_add_bbb, q120_add_bbb_simple(nn, r, x, y), q120b* r; const q120b *x; const q120b *y)
H(h_add_ccc, q120_add_ccc_simple(nn, r, x, y), q120c* r; const q120c *x; const q120c *y)
H(h_frame_c_from_b, q120_c_from_b_simple(nn, r, x), q120c* r; const q120b* x)
H(h_frame_b_from_znx64, q120_b_from_znx64_simple(nn, r, x), q120b* r; const int64_t* x)
H(h_frame_c_from_znx64, q120_c_from_znx64_simple(nn, r, x), q120c* r; const int64_t* x)
H(h_frame_b_to_znx128, q120_b_to_znx128_simple(nn, r, x), __int128_t* r; const q120b* x)
