// C04: lazy modular arithmetic of the q120 NTT / iNTT never wraps -- lane-level certificate on the REAL level kernels
// (ntt_iter_first, ntt_iter, ntt_iter_red, intt_iter, intt_iter_red, ntt_iter_first_red of q120_ntt_avx2.c), one run per
// distinct level-metadata tuple of the tables the real constructors build for n = 2^1..2^16 (read natively, S5) and per lane.
// Invariant carried from level to level ("Q-bound"): every lane value of prime q_k entering a level with bit budget B is
// < q_k << (B-30) (any 64-bit value when B == 64).  Obligations per level, all in exact 128-bit integer arithmetic:
//   * every sum a+b and a+q2bs does not wrap 64 bits, the lazy difference a+q2bs-b is non-negative;
//   * every product result equals (x mod 2^h)*t + (x >> h)*t1 over the integers, which forces both mul_epu32 operands
//     to fit 32 bits (a truncated operand would change the value);
//   * modq_red(x) == (x mod 2^H) + (x >> H)*c over the integers;
//   * every output satisfies the Q-bound of the level's output budget bs (so the next level's premise holds).
// The vector length is the smallest block the kernel accepts (S4 in length: nn = 2 or 4); every lane value is symbolic.
#include "vcommon.h"
#include <immintrin.h>
#include "q120/q120_ntt_private.h"
#include "q120/q120_common.h"
void ntt_iter_first(__m256i* const begin, const __m256i* const end, const q120_ntt_step_precomp* const itData, const __m256i* powomega);
void ntt_iter_first_red(__m256i* const begin, const __m256i* const end, const q120_ntt_step_precomp* const itData, const __m256i* powomega, const q120_ntt_reduc_step_precomp* const reduc_precomp);
void ntt_iter(const uint64_t nn, __m256i* const begin, const __m256i* const end, const q120_ntt_step_precomp* const itData, const __m256i* const powomega);
void ntt_iter_red(const uint64_t nn, __m256i* const begin, const __m256i* const end, const q120_ntt_step_precomp* const itData, const __m256i* const powomega, const q120_ntt_reduc_step_precomp* const reduc_precomp);
void intt_iter(const uint64_t nn, __m256i* const begin, const __m256i* const end, const q120_ntt_step_precomp* const itData, const __m256i* const powomega);
void intt_iter_red(const uint64_t nn, __m256i* const begin, const __m256i* const end, const q120_ntt_step_precomp* const itData, const __m256i* const powomega, const q120_ntt_reduc_step_precomp* const reduc_precomp);
// run parameters (from the native tables): KIND 0 first (mult only), 1 forward butterfly, 2 inverse butterfly;
// NNB block size (2: no multiplication, 4: one plain pair + one pair with multiplication); RED 0/1; BIN budget of the inputs;
// BRED budget after reduction; HB half_bs; Q2SH shift of q2bs; BS output budget of the level; RH, reduction h; LANE
#ifndef KIND
#define KIND 1
#define NNB 4
#define RED 0
#define BIN 63
#define BRED 48
#define HB 32
#define Q2SH 33
#define BS 64
#define RH 47
#endif
#ifndef LANE
#define LANE 0
#endif
static const uint64_t QS[4] = {Q1, Q2, Q3, Q4};
#define QL ((u128)QS[LANE])
#define QBOUND(v, B) ((B) >= 64 ? 1 : ((u128)(v) < (QL << ((B)-30))))
static u128 red_spec(uint64_t x) { return (u128)(x & ((((uint64_t)1) << RH) - 1)) + (u128)(x >> RH) * (u128)((((u128)1) << RH) % QL); }
static u128 mul_spec(u128 x, uint64_t t, uint64_t t1) { return (x & ((((u128)1) << HB) - 1)) * (u128)t + (x >> HB) * (u128)t1; }
void h_ntt_level(void) {
  uint64_t d[NNB][4], po[2][4];
  q120_ntt_step_precomp meta; q120_ntt_reduc_step_precomp rm;
  for (int k = 0; k < 4; ++k) { meta.q2bs[k] = (Q2SH >= 0) ? (QS[k] << (Q2SH >= 0 ? Q2SH : 0)) : 0; rm.modulo_red_cst[k] = (uint64_t)((((u128)1) << RH) % QS[k]); }
  meta.bs = BS; meta.half_bs = HB; meta.mask = (HB == 0) ? 0 : ((((uint64_t)1) << HB) - 1); meta.reduce = RED;
  rm.h = RH; rm.mask = (((uint64_t)1) << RH) - 1;
  uint64_t t[2], t1[2];
  for (int j = 0; j < NNB; ++j) for (int k = 0; k < 4; ++k) d[j][k] = nondet_u64();
  for (int j = 0; j < 2; ++j) { for (int k = 0; k < 4; ++k) po[j][k] = nondet_u64(); t[j] = po[j][LANE] & 0xFFFFFFFFu; t1[j] = po[j][LANE] >> 32; __CPROVER_assume(t[j] < QL && t1[j] < QL); }
  uint64_t in[NNB];
  for (int j = 0; j < NNB; ++j) { in[j] = d[j][LANE]; __CPROVER_assume(QBOUND(in[j], BIN)); }
  // ---- the real kernel
#if KIND == 0
  if (RED) ntt_iter_first_red((__m256i*)d, (const __m256i*)(d + NNB), &meta, (const __m256i*)po, &rm); else ntt_iter_first((__m256i*)d, (const __m256i*)(d + NNB), &meta, (const __m256i*)po);
#elif KIND == 1
  if (RED) ntt_iter_red(NNB, (__m256i*)d, (const __m256i*)(d + NNB), &meta, (const __m256i*)po, &rm); else ntt_iter(NNB, (__m256i*)d, (const __m256i*)(d + NNB), &meta, (const __m256i*)po);
#else
  if (RED) intt_iter_red(NNB, (__m256i*)d, (const __m256i*)(d + NNB), &meta, (const __m256i*)po, &rm); else intt_iter(NNB, (__m256i*)d, (const __m256i*)(d + NNB), &meta, (const __m256i*)po);
#endif
  // ---- the integer specification
  u128 v[NNB];
  for (int j = 0; j < NNB; ++j) {
    v[j] = RED ? red_spec(in[j]) : (u128)in[j];
    if (RED) __CPROVER_assert(v[j] < (((u128)1) << 64) && QBOUND(v[j], BRED), "modq_red: exact value fits 64 bits and meets the Q-bound of the reduced budget");
  }
  const u128 q2 = (Q2SH >= 0) ? (QL << (Q2SH >= 0 ? Q2SH : 0)) : 0;
#if KIND == 0
  for (int j = 0; j < NNB && j < 2; ++j) {
    u128 w = mul_spec(v[j], t[j], t1[j]);
    __CPROVER_assert((v[j] >> HB) < (((u128)1) << 32) && HB <= 32, "first/last level: both partial-product operands fit 32 bits");
    __CPROVER_assert((u128)d[j][LANE] == w && QBOUND(w, BS), "first/last level: result == (x mod 2^h)*t + (x>>h)*t1 exactly and meets the output Q-bound");
  }
#else
  const int half = NNB / 2;
  for (int i = 0; i < half; ++i) {
    u128 a = v[i], b = v[i + half];
    if (KIND == 1) {                       // forward: (a+b, (a + q2bs - b) [* omega])
      u128 s = a + b, df = a + q2 - b;
      __CPROVER_assert(b <= a + q2 && a + q2 < (((u128)1) << 64) && s < (((u128)1) << 64), "forward butterfly: a+b and a+q2bs do not wrap, a+q2bs-b is non-negative");
      __CPROVER_assert((u128)d[i][LANE] == s && QBOUND(s, BS), "forward butterfly: a+b exact and within the output Q-bound");
      if (i == 0) __CPROVER_assert((u128)d[i + half][LANE] == df && QBOUND(df, BS), "forward butterfly (no twiddle): a+q2bs-b exact and within the output Q-bound");
      else {
        u128 w = mul_spec(df, t[i - 1], t1[i - 1]);
        __CPROVER_assert((df >> HB) < (((u128)1) << 32) && HB <= 32, "forward butterfly: both partial-product operands fit 32 bits");
        __CPROVER_assert((u128)d[i + half][LANE] == w && QBOUND(w, BS), "forward butterfly: (a+q2bs-b)*omega == split product exactly, within the output Q-bound");
      }
    } else {                               // inverse: bo = b [* omega]; (a+bo, a + q2bs - bo)
      u128 bo = b;
      if (i > 0) { bo = mul_spec(b, t[i - 1], t1[i - 1]); __CPROVER_assert((b >> HB) < (((u128)1) << 32) && HB <= 32, "inverse butterfly: both partial-product operands fit 32 bits"); }
      u128 s = a + bo, df = a + q2 - bo;
      __CPROVER_assert(bo <= a + q2 && a + q2 < (((u128)1) << 64) && s < (((u128)1) << 64), "inverse butterfly: a+bo and a+q2bs do not wrap, a+q2bs-bo is non-negative");
      __CPROVER_assert((u128)d[i][LANE] == s && QBOUND(s, BS), "inverse butterfly: a+b*omega exact and within the output Q-bound");
      __CPROVER_assert((u128)d[i + half][LANE] == df && QBOUND(df, BS), "inverse butterfly: a+q2bs-b*omega exact and within the output Q-bound");
    }
  }
#endif
  VACUITY_CANARY();
}
