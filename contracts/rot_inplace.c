// S4 (bounded) checks of the in-place rotation / automorphism / (X^p-1) kernels against the out-of-place kernels
// (which are under contract in rot.c): same data, concrete dimension NN, p symbolic (small NN) or a concrete residue PVAL.
#include "vcommon.h"
void znx_rotate_i64(uint64_t nn, int64_t p, int64_t* res, const int64_t* in);
void znx_automorphism_i64(uint64_t nn, int64_t p, int64_t* res, const int64_t* in);
void rnx_rotate_f64(uint64_t nn, int64_t p, double* res, const double* in);
void rnx_mul_xp_minus_one(uint64_t nn, int64_t p, double* res, const double* in);
void rnx_automorphism_f64(uint64_t nn, int64_t p, double* res, const double* in);
void znx_rotate_inplace_i64(uint64_t nn, int64_t p, int64_t* res);
void znx_automorphism_inplace_i64(uint64_t nn, int64_t p, int64_t* res);
void rnx_rotate_inplace_f64(uint64_t nn, int64_t p, double* res);
void rnx_mul_xp_minus_one_inplace(uint64_t nn, int64_t p, double* res);
void rnx_automorphism_inplace_f64(uint64_t nn, int64_t p, double* res);
#ifndef NN
#define NN 8
#endif
static int64_t pick_p(int odd) {
  int64_t p;
#ifdef PVAL
  p = PVAL;
#else
  p = nondet_i64();
  __CPROVER_assume(p > INT64_MIN);
  if (odd) __CPROVER_assume((p & 1) == 1);
#endif
  return p;
}
#define HI(hname, T, OUTF, INF, ODD)                                                                      \
  void hname(void) {                                                                                      \
    T a[NN], r1[NN], r2[NN];                                                                              \
    uint64_t ab[NN];                                                                                      \
    for (int i = 0; i < NN; ++i) { ab[i] = nondet_u64(); __CPROVER_assume(sizeof(T) != 8 || 1); }         \
    __CPROVER_array_copy((char*)a, (char*)ab);                                                            \
    for (int i = 0; i < NN; ++i) r1[i] = a[i];                                                            \
    int64_t p = pick_p(ODD);                                                                              \
    OUTF(NN, p, r2, a);                                                                                   \
    INF(NN, p, r1);                                                                                       \
    uint64_t g = nondet_u64();                                                                            \
    __CPROVER_assume(g < NN);                                                                             \
    __CPROVER_assert(((uint64_t*)r1)[g] == ((uint64_t*)r2)[g], "in-place result equals out-of-place result (bit pattern)"); \
    VACUITY_CANARY();                                                                                     \
  }
HI(h_ip_znx_rotate, int64_t, znx_rotate_i64, znx_rotate_inplace_i64, 0)
HI(h_ip_znx_automorphism, int64_t, znx_automorphism_i64, znx_automorphism_inplace_i64, 1)
HI(h_ip_rnx_rotate, double, rnx_rotate_f64, rnx_rotate_inplace_f64, 0)
HI(h_ip_rnx_automorphism, double, rnx_automorphism_f64, rnx_automorphism_inplace_f64, 1)
HI(h_ip_rnx_mul_xp_minus_one, double, rnx_mul_xp_minus_one, rnx_mul_xp_minus_one_inplace, 0)

// ---- S4: rnx_mul_xp_minus_one against the ring-map spec a*X^p - a (one IEEE subtraction per coefficient), concrete
// dimension NN and concrete p = PVAL (every residue mod 2NN is enumerated by the job generator): with symbolic p or a
// loop contract the solver would have to prove two IEEE subtractors equal on equal inputs (timeout, DESIGN 0/D5)
void h_rnx_mul_xp_spec(void) {
  double a[NN], r[NN];
  for (int i = 0; i < NN; ++i) a[i] = nondet_double();
  int64_t p = pick_p(0);
  rnx_mul_xp_minus_one(NN, p, r, a);
  for (uint64_t t = 0; t < NN; ++t) {
    uint64_t s = ((uint64_t)t - (uint64_t)p) & (2 * NN - 1);
    double want = (s < NN ? a[s] : -a[s - NN]) - a[t];
    __CPROVER_assert(r[t] == want || (r[t] != r[t] && want != want), "rnx_mul_xp_minus_one: res[t] == (a*X^p)[t] - a[t]");
  }
  VACUITY_CANARY();
}
