// Contracts for rotation, (X^p - 1) product and automorphism kernels of coeffs_arithmetic.c (C09).
// Ring-map specs by coefficient extraction in Z[X]/(X^nn+1), nn = 2^j:
//   (a*X^p)_t        = s < nn ? a_s : -a_(s-nn)          with s = (t - p) mod 2nn          (pull form, ghost target G)
//   (a(X^p))_(e mod nn) = e < nn ? a_G : -a_G            with e = (G*p) mod 2nn, p odd     (push form, ghost source G)
#include "coeffs_contracts.h"
void znx_rotate_i64(uint64_t nn, int64_t p, int64_t* res, const int64_t* in);
void znx_mul_xp_minus_one(uint64_t nn, int64_t p, int64_t* res, const int64_t* in);
void znx_automorphism_i64(uint64_t nn, int64_t p, int64_t* res, const int64_t* in);
void rnx_rotate_f64(uint64_t nn, int64_t p, double* res, const double* in);
void rnx_mul_xp_minus_one(uint64_t nn, int64_t p, double* res, const double* in);
void rnx_automorphism_f64(uint64_t nn, int64_t p, double* res, const double* in);
void znx_rotate_inplace_i64(uint64_t nn, int64_t p, int64_t* res);
void znx_automorphism_inplace_i64(uint64_t nn, int64_t p, int64_t* res);
void rnx_rotate_inplace_f64(uint64_t nn, int64_t p, double* res);
void rnx_mul_xp_minus_one_inplace(uint64_t nn, int64_t p, double* res);
void rnx_automorphism_inplace_f64(uint64_t nn, int64_t p, double* res);

#define ROT_S(t, p, nn) (((uint64_t)(t) - (uint64_t)(p)) & (2 * (nn)-1))
#define ROT_VAL(in, t, p, nn) (ROT_S(t, p, nn) < (nn) ? (in)[ROT_S(t, p, nn)] : WNEG((in)[ROT_S(t, p, nn) - (nn)]))
#define REQ_ROT IS_POW2(nn) && nn <= MAXN && G < nn && p > INT64_MIN
#ifdef ROT_NN
#define REQ_NN (nn == ROT_NN)
#else
#define REQ_NN 1
#endif

void znx_rotate__c(uint64_t nn, int64_t p, int64_t* res, const int64_t* in)
__CPROVER_requires(REQ_ROT)
__CPROVER_requires(__CPROVER_is_fresh(res, nn * 8) && __CPROVER_is_fresh(in, nn * 8))
__CPROVER_assigns(__CPROVER_object_upto(res, nn * 8))
__CPROVER_ensures(res[G] == ROT_VAL(in, G, p, nn)) /*@rotate_is_mul_by_X_p:C09,C08,C15*/
;
void znx_mul_xp_minus_one__c(uint64_t nn, int64_t p, int64_t* res, const int64_t* in)
__CPROVER_requires(REQ_ROT)
__CPROVER_requires(__CPROVER_is_fresh(res, nn * 8) && __CPROVER_is_fresh(in, nn * 8))
__CPROVER_assigns(__CPROVER_object_upto(res, nn * 8))
__CPROVER_ensures(res[G] == WSUB(ROT_VAL(in, G, p, nn), in[G])) /*@mul_xp_minus_one_is_aXp_minus_a:C09,C15*/
;
// automorphism X -> X^p, p odd: source coefficient G lands at (G*p mod 2nn), negated past nn
void znx_automorphism__c(uint64_t nn, int64_t p, int64_t* res, const int64_t* in)
__CPROVER_requires(REQ_ROT && (p & 1) == 1 && REQ_NN && AUT_REL(p, nn))
__CPROVER_requires(__CPROVER_is_fresh(res, nn * 8) && __CPROVER_is_fresh(in, nn * 8))
__CPROVER_assigns(__CPROVER_object_upto(res, nn * 8))
__CPROVER_ensures(res[GT & (nn - 1)] == (GT < nn ? in[G] : WNEG(in[G]))) /*@automorphism_is_a_of_X_p:C09,C08,C15*/
;

// double-precision variants: same maps, bit-pattern equality (negation = sign-bit flip)
#define BITS(v, i) (((const uint64_t*)(v))[i])
#define SGN 0x8000000000000000ULL
#define RROT_BITS(in, t, p, nn) (ROT_S(t, p, nn) < (nn) ? BITS(in, ROT_S(t, p, nn)) : (BITS(in, ROT_S(t, p, nn) - (nn)) ^ SGN))
void rnx_rotate__c(uint64_t nn, int64_t p, double* res, const double* in)
__CPROVER_requires(REQ_ROT)
__CPROVER_requires(__CPROVER_is_fresh(res, nn * 8) && __CPROVER_is_fresh(in, nn * 8))
__CPROVER_assigns(__CPROVER_object_upto(res, nn * 8))
__CPROVER_ensures(BITS(res, G) == RROT_BITS(in, G, p, nn)) /*@rnx_rotate_is_mul_by_X_p:C09*/
;
// (X^p - 1) product on doubles: rotated coefficient (sign flip = bit flip) minus the coefficient, one IEEE subtraction
#define RROT_VAL(in, t, p, nn) (ROT_S(t, p, nn) < (nn) ? (in)[ROT_S(t, p, nn)] : -(in)[ROT_S(t, p, nn) - (nn)])
#define DSAME(x, y) ((x) == (y) || ((x) != (x) && (y) != (y)))
void rnx_mul_xp_minus_one__c(uint64_t nn, int64_t p, double* res, const double* in)
__CPROVER_requires(REQ_ROT)
__CPROVER_requires(__CPROVER_is_fresh(res, nn * 8) && __CPROVER_is_fresh(in, nn * 8))
__CPROVER_assigns(__CPROVER_object_upto(res, nn * 8))
__CPROVER_ensures(DSAME(res[G], RROT_VAL(in, G, p, nn) - in[G])) /*@rnx_mul_xp_minus_one_is_aXp_minus_a:C09*/
;
void rnx_automorphism__c(uint64_t nn, int64_t p, double* res, const double* in)
__CPROVER_requires(REQ_ROT && (p & 1) == 1 && REQ_NN && AUT_REL(p, nn))
__CPROVER_requires(__CPROVER_is_fresh(res, nn * 8) && __CPROVER_is_fresh(in, nn * 8))
__CPROVER_assigns(__CPROVER_object_upto(res, nn * 8))
__CPROVER_ensures(BITS(res, GT & (nn - 1)) == (GT < nn ? BITS(in, G) : (BITS(in, G) ^ SGN))) /*@rnx_automorphism_is_a_of_X_p:C09*/
;

#define HROT(hname, fn, T)                                      \
  void hname(void) {                                             \
    uint64_t nn; int64_t p; T* res; const T* in;                 \
    SET_AUT_GHOSTS();                                            \
    fn(nn, p, res, in);                                          \
    VACUITY_CANARY();                                            \
  }
HROT(h_znx_rotate_i64, znx_rotate_i64, int64_t)
HROT(h_znx_mul_xp_minus_one, znx_mul_xp_minus_one, int64_t)
HROT(h_znx_automorphism_i64, znx_automorphism_i64, int64_t)
HROT(h_rnx_rotate_f64, rnx_rotate_f64, double)
HROT(h_rnx_automorphism_f64, rnx_automorphism_f64, double)
HROT(h_rnx_mul_xp_minus_one, rnx_mul_xp_minus_one, double)
