// S3 contract of vec_znx_normalize_base2k_ref (and, through it, the fft64 big / range variants): C05.
// Spec (from the property): for coefficient G, T = sum_i a_i[G]*2^(k*(AS-1-i)); output limb i is digit i of the unique
// balanced base-2^k expansion of T mod 2^(k*AS), for i < min(RS,AS); limbs AS <= i < RS are zero.
// Stated as the digit recurrence over the primitive's spec functions NRM_DIG/NRM_CAR in 128-bit arithmetic, from the least
// significant limb AS-1 upward (dropped low limbs still feed their carry); k stays symbolic.  That the recurrence yields
// THE balanced expansion of T mod 2^(k*AS) (closed form) is lemma norm_closed_form (contracts/lemmas_norm.c), per k.
#include "vec_shape.h"

void vec_znx_normalize_base2k_ref(const MODULE* module, uint64_t log2_base2k, int64_t* res, uint64_t res_size,
                                  uint64_t res_sl, const int64_t* a, uint64_t a_size, uint64_t a_sl, uint8_t* tmp_space);
void znx_normalize__c(uint64_t nn, uint64_t base_k, int64_t* out, int64_t* carry_out, const int64_t* in, const int64_t* carry_in);

#define K log2_base2k
#define HALF (((i128)1) << (K - 1))
// the same spec functions as the primitive's contract (coeffs_contracts.h): the vector-level recurrence composes them
#define DIG(x) NRM_DIG(x, K)
#define CAR(x) NRM_CAR(x, K)
// old value of input limb i at the ghost coefficient
// the input limbs are read through NORM_A / NORM_ASL so that the big and range wrappers (vec_bignorm.c) reuse the same posts
#ifndef NORM_A
#define NORM_A a
#define NORM_ASL a_sl
#endif
#define AI(i) ((i128)__CPROVER_old(NORM_A[(i)*NORM_ASL + G]))
// recurrence, least significant limb first (limb AS-1), written out for AS <= 4
#if AS == 1
#define X0 AI(0)
#elif AS == 2
#define X1 AI(1)
#define X0 (AI(0) + CAR(X1))
#elif AS == 3
#define X2 AI(2)
#define X1 (AI(1) + CAR(X2))
#define X0 (AI(0) + CAR(X1))
#elif AS == 4
#define X3 AI(3)
#define X2 (AI(2) + CAR(X3))
#define X1 (AI(1) + CAR(X2))
#define X0 (AI(0) + CAR(X1))
#endif
#define RNG62(i) (-(((i128)1) << 62) <= NORM_A[(i)*NORM_ASL + G] && NORM_A[(i)*NORM_ASL + G] <= (((i128)1) << 62))
#if AS == 0
#define REQ_RANGE 1
#elif AS == 1
#define REQ_RANGE RNG62(0)
#elif AS == 2
#define REQ_RANGE RNG62(0) && RNG62(1)
#elif AS == 3
#define REQ_RANGE RNG62(0) && RNG62(1) && RNG62(2)
#else
#define REQ_RANGE RNG62(0) && RNG62(1) && RNG62(2) && RNG62(3)
#endif
#define RI(i) res[(i)*res_sl + G]
#if RS > 0 && AS > 0
#define ENS_D0 RI(0) == DIG(X0)
#else
#define ENS_D0 1
#endif
#if RS > 1 && AS > 1
#define ENS_D1 RI(1) == DIG(X1)
#else
#define ENS_D1 1
#endif
#if RS > 2 && AS > 2
#define ENS_D2 RI(2) == DIG(X2)
#else
#define ENS_D2 1
#endif
#if RS > 3 && AS > 3
#define ENS_D3 RI(3) == DIG(X3)
#else
#define ENS_D3 1
#endif
// limbs a_size <= GL < res_size are zero
#if RS > AS
#define ENS_ZERO (GL < AS || RI(GL) == 0)
#else
#define ENS_ZERO 1
#endif
#if RS > 0 && AS > 0
#define ENS_BAL (GL >= AS || (-HALF <= RI(GL) && RI(GL) < HALF))
#else
#define ENS_BAL 1
#endif

void vec_znx_normalize__c(const MODULE* module, uint64_t log2_base2k, int64_t* res, uint64_t res_size, uint64_t res_sl,
                          const int64_t* a, uint64_t a_size, uint64_t a_sl, uint8_t* tmp_space)
    __CPROVER_requires(REQ_MODULE) __CPROVER_requires(REQ_SHAPE2) __CPROVER_requires(1 <= K && K <= 62)
#ifdef NRM_K
    __CPROVER_requires(K == NRM_K)
#endif
    __CPROVER_requires(__CPROVER_is_fresh(res, RES_BYTES)) __CPROVER_requires(REQ_A)
    __CPROVER_requires(__CPROVER_is_fresh(tmp_space, NN * 8)) __CPROVER_requires(REQ_GHOST) __CPROVER_requires(REQ_RANGE)
    __CPROVER_assigns(__CPROVER_object_upto(res, RES_BYTES), __CPROVER_object_upto(tmp_space, NN * 8))
    __CPROVER_ensures(ENS_D0) /*@vecnorm_digit0:C05,C13*/
    __CPROVER_ensures(ENS_D1) /*@vecnorm_digit1:C05,C13*/
    __CPROVER_ensures(ENS_D2) /*@vecnorm_digit2:C05,C13*/
    __CPROVER_ensures(ENS_D3) /*@vecnorm_digit3:C05,C13*/
    __CPROVER_ensures(ENS_BAL) /*@vecnorm_balanced:C05*/
    __CPROVER_ensures(ENS_ZERO) /*@vecnorm_zero_extension:C05*/
    __CPROVER_ensures(ENS_PAD) /*@vecnorm_padding_unchanged:C08,C11,C18*/
    __CPROVER_ensures(ENS_TAIL) /*@vecnorm_tail_unchanged:C11,C18*/
;

#ifndef NO_NORM_HARNESS
void h_vec_znx_normalize_base2k_ref(void) {
  const MODULE* module; int64_t* res; const int64_t* a; uint8_t* tmp; uint64_t k, res_size, res_sl, a_size, a_sl;
  G = nondet_u64(); GL = nondet_u64(); GPAD = nondet_u64(); GX = nondet_u64();
  vec_znx_normalize_base2k_ref(module, k, res, res_size, res_sl, a, a_size, a_sl, tmp);
  VACUITY_CANARY();
}
#endif
