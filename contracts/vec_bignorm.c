// C05: fft64_vec_znx_big_normalize_base2k / fft64_vec_znx_big_range_normalize_base2k forward to the module's
// vec_znx_normalize_base2k slot through a function pointer.  The pointer is restricted (goto-instrument
// --restrict-function-pointer) to the function module_api.c stores in that slot, vec_znx_normalize_base2k_ref, whose call is
// replaced by its S3 contract (vec_norm.c).  Decided: the forwarding -- the selected limbs (begin, end, step), the stride
// N*step, the limb count ceil((end-begin)/step) -- yields the digits of normalizing exactly the selected limbs.
#ifndef RBEGIN
#define RBEGIN 0
#define RSTEP 1
#define REND_EXTRA 0   /* range_end = RBEGIN + (AS-1)*RSTEP + 1 + REND_EXTRA, 0 <= REND_EXTRA < RSTEP: same selected limbs */
#endif
#define NO_NORM_HARNESS
#include "vec_norm.c"   /* callee contract vec_znx_normalize__c, stated on its own (a, a_sl) */
// from here on the SAME post macros read the input limbs through the big vector: limb i of the selection is big limb RBEGIN + i*RSTEP
#undef NORM_A
#undef NORM_ASL
#define NORM_A (((const int64_t*)a) + module->nn * RBEGIN)
#define NORM_ASL (module->nn * RSTEP)
#if AS > 0
#define BIG_LIMBS (RBEGIN + (AS - 1) * RSTEP + 1)
#else
#define BIG_LIMBS RBEGIN
#endif
#define BIG_COMMON \
    __CPROVER_requires(REQ_MODULE) __CPROVER_requires(res_size == RS && res_sl == NN * RM + RA && 1 <= K && K <= 62) \
    /* wf(module): the slot holds what fill_generic_virtual_table stores in it */ \
    __CPROVER_requires(module->func.vec_znx_normalize_base2k == vec_znx_normalize_base2k_ref) \
    __CPROVER_requires(__CPROVER_is_fresh(res, RES_BYTES_(res_sl)) && __CPROVER_is_fresh(a, BIG_LIMBS * NN * 8) && __CPROVER_is_fresh(tmp_space, NN * 8)) \
    __CPROVER_requires(REQ_GHOST_(res_sl)) __CPROVER_requires(REQ_RANGE) \
    __CPROVER_assigns(__CPROVER_object_upto(res, RES_BYTES_(res_sl)), __CPROVER_object_upto(tmp_space, NN * 8)) \
    __CPROVER_ensures(ENS_D0) __CPROVER_ensures(ENS_D1) __CPROVER_ensures(ENS_D2) __CPROVER_ensures(ENS_D3) __CPROVER_ensures(ENS_BAL) __CPROVER_ensures(ENS_ZERO)
void big_normalize__c(const MODULE* module, uint64_t log2_base2k, int64_t* res, uint64_t res_size, uint64_t res_sl, const VEC_ZNX_BIG* a, uint64_t a_size, uint8_t* tmp_space)
    __CPROVER_requires(a_size == AS) BIG_COMMON; /*@big_normalize_digits_of_the_big_limbs:C05,C13*/
void big_range_normalize__c(const MODULE* module, uint64_t log2_base2k, int64_t* res, uint64_t res_size, uint64_t res_sl, const VEC_ZNX_BIG* a,
                            uint64_t a_begin, uint64_t a_end, uint64_t a_step, uint8_t* tmp_space)
    __CPROVER_requires(a_begin == RBEGIN && a_step == RSTEP && a_end == BIG_LIMBS + REND_EXTRA) BIG_COMMON; /*@big_range_normalize_digits_of_the_selected_limbs:C05,C13*/
void h_big_normalize(void) {
  const MODULE* m; int64_t* r; const VEC_ZNX_BIG* a; uint8_t* t; uint64_t k, rs, rsl, as;
  G = nondet_u64(); GL = nondet_u64(); GPAD = nondet_u64(); GX = nondet_u64();
  fft64_vec_znx_big_normalize_base2k(m, k, r, rs, rsl, a, as, t);
  VACUITY_CANARY();
}
void h_big_range_normalize(void) {
  const MODULE* m; int64_t* r; const VEC_ZNX_BIG* a; uint8_t* t; uint64_t k, rs, rsl, b, e, st;
  G = nondet_u64(); GL = nondet_u64(); GPAD = nondet_u64(); GX = nondet_u64();
  fft64_vec_znx_big_range_normalize_base2k(m, k, r, rs, rsl, a, b, e, st, t);
  VACUITY_CANARY();
}
