// C15 (and C12's premise): the *_simple convenience functions cache their tables in function-local statics.  Claim decided
// here, per function, as a REPRESENTATION INVARIANT of the cache proved inductively over one call from an ARBITRARY cache
// state (every history is covered, no call sequence is enumerated):
//   INV(cache)  :=  every slot is empty, or holds exactly the table that the real init function builds for the slot's key
//   (1) zero-initialised statics satisfy INV (trivially: all slots empty),
//   (2) from any state satisfying INV, one call with any arguments hands the kernel a table that is field-for-field the
//       table a FRESH init call builds for those arguments (the property's statement), and
//   (3) INV holds again afterwards (slot of the call and an arbitrary other ghost slot).
// The function-local statics of the real function are reached through asm-label aliases declared BEFORE the repository
// source file is #included into this translation unit (same text, one TU; nothing is rewritten).  vlib/jobs_static.py checks on
// every run that the aliased names are exactly the function's non-const statics (otherwise: extraction break, exit 2).
// The kernels behind ->function are not executed (their bodies are removed: what they compute from a given table is the
// subject of C14); the CPU feature test is a fixed nondeterministic bit per process (both dispatch outcomes).
#include "vcommon.h"
#include <stdlib.h>
GHOST _Bool CPU_AVX2;
GHOST _Bool CPU_FMA;
static _Bool verif_cpu_supports(const char* f) { return (f[0] == 'a') ? CPU_AVX2 : CPU_FMA; }
#define __builtin_cpu_supports verif_cpu_supports
#ifndef WHICH
#define WHICH 0
#endif
#define POW2_32(m) ((m) != 0 && ((m) & ((m) - 1)) == 0)

#if WHICH == 0  // ---------------- reim_to_znx64_simple: one slot, key (m, divisor, log2bound)
#include "reim/reim_fft_private.h"
extern __thread REIM_TO_ZNX64_PRECOMP v_p __asm__("reim_to_znx64_simple::1::p");
extern __thread uint32_t v_prev __asm__("reim_to_znx64_simple::1::prev_log2bound");
#include "reim/reim_conversions.c"
static _Bool inv0(void) {
  if (!v_p.function) return 1;
  REIM_TO_ZNX64_PRECOMP t;
  if (v_p.m < 0 || v_p.m > 0xffffffffLL) return 0;
  if (!init_reim_to_znx64_precomp(&t, (uint32_t)v_p.m, v_p.divisor, v_prev)) return 0;
  return t.function == v_p.function && t.m == v_p.m && t.divisor == v_p.divisor;
}
void h_simple_cache(void) {
  CPU_AVX2 = nondet_bool(); CPU_FMA = nondet_bool();
  REIM_TO_ZNX64_PRECOMP s0; uint32_t pv;   // arbitrary cache state
  v_p = s0; v_prev = pv;
  __CPROVER_assume(inv0());
  uint32_t m, log2bound; double divisor; int64_t r[2]; double a[2];
  REIM_TO_ZNX64_PRECOMP fresh;
  __CPROVER_assume(divisor == divisor && divisor - divisor == 0);   // a number (the library's power-of-two test looks at the mantissa only)
  __CPROVER_assume(init_reim_to_znx64_precomp(&fresh, m, divisor, log2bound) != 0);   // in-domain arguments
  reim_to_znx64_simple(m, divisor, log2bound, r, a);
  __CPROVER_assert(v_p.function == fresh.function && v_p.m == fresh.m && v_p.divisor == fresh.divisor,
                   "reim_to_znx64_simple: the table handed to the kernel equals the freshly built table for (m, divisor, log2bound), whatever was called before");
  __CPROVER_assert(inv0(), "reim_to_znx64_simple: cache invariant re-established");
  VACUITY_CANARY();
}
#elif WHICH == 1  // ---------------- generic: value array  static T precomp[NSLOT], slot log2m(m), key m, filled by the real init
// parameters from the job: HDR, SRCFILE, T_, INIT_ (real init function), INITX (extra init arguments, may be empty),
// SIMPLE_CALL (the call under proof), ALIAS (mangled name of the static), NSLOT, DECLS (argument declarations)
#include HDR
extern T_ v_pre[NSLOT] __asm__(ALIAS);
#include SRCFILE
static _Bool inv1(uint32_t k) {
  if (!v_pre[k].function) return 1;
  T_ t;
  if (k >= NSLOT || !INIT_(&t, (uint32_t)1 << k INITX0)) return 0;
  return t.function == v_pre[k].function && t.m == v_pre[k].m;
}
void h_simple_cache(void) {
  CPU_AVX2 = nondet_bool(); CPU_FMA = nondet_bool();
  uint32_t m, gk = nondet_u32(), log2bound = nondet_u32();
  __CPROVER_assume(POW2_32(m) && m <= ((uint32_t)1 << (NSLOT - 1)) && gk < NSLOT);
  uint32_t k = log2m(m);
  T_ s0, s1; v_pre[k] = s0; v_pre[gk] = (gk == k) ? s0 : s1;   // arbitrary contents of the two slots looked at
  __CPROVER_assume(inv1(k) && inv1(gk));
  T_ fresh;
  __CPROVER_assume(INIT_(&fresh, m INITX) != 0);   // in-domain arguments
  double r[2], a[2], b[2];
  SIMPLE_CALL;
  __CPROVER_assert(v_pre[k].function == fresh.function && v_pre[k].m == fresh.m,
                   "_simple (array cache): the table handed to the kernel equals the freshly built table for these arguments, whatever was called before");
  __CPROVER_assert(inv1(k) && inv1(gk), "_simple (array cache): cache invariant re-established (slot of the call and any other slot)");
  VACUITY_CANARY();
}
#elif WHICH == 2  // ---------------- generic: pointer array  static T* p[NSLOT], slot log2m(m), key m, filled by new_T(m, ...)
// The constructor new_T builds large trigonometric tables; its calls are redirected (goto-instrument --replace-calls) to the
// stub below, which is its ASSUMED contract: "returns a fresh table object for dimension m" (the abstract view of a table is
// its ->m field; that new_T is a deterministic function of m is an assumption listed in the evidence).  The kernel behind
// ->function is a recording stub: the post is about WHICH table the kernel is handed.
#include HDR
extern T_* v_p[NSLOT] __asm__(ALIAS);
#include SRCFILE
GHOST int64_t GSEEN_M;
GHOST _Bool GSEEN;
static void verif_kernel(const T_* t, KPARAMS) { GSEEN_M = t->m; GSEEN = 1; }
T_* verif_new(uint32_t m NEWPARAMS) {
  T_* t = malloc(sizeof(T_));
  __CPROVER_assume(t != 0);
  t->m = m; t->function = verif_kernel;
  return t;
}
static _Bool inv2(uint32_t k) { return v_p[k] == 0 || (v_p[k]->m == ((int64_t)1 << k) && v_p[k]->function == verif_kernel); }
void h_simple_cache(void) {
  uint32_t m, gk = nondet_u32();
  __CPROVER_assume(POW2_32(m) && m <= ((uint32_t)1 << (NSLOT - 1)) && gk < NSLOT);
  uint32_t k = log2m(m);
  T_* o0 = malloc(sizeof(T_)); T_* o1 = malloc(sizeof(T_));
  __CPROVER_assume(o0 && o1);
  v_p[k] = nondet_bool() ? o0 : 0; v_p[gk] = (gk == k) ? v_p[k] : (nondet_bool() ? o1 : 0);   // arbitrary contents of the two slots looked at
  __CPROVER_assume(inv2(k) && inv2(gk));
  double r[2], a[2], b[2];
  GSEEN = 0;
  SIMPLE_CALL;
  __CPROVER_assert(GSEEN && GSEEN_M == (int64_t)m, "_simple (pointer cache): the kernel is handed the table built for dimension m, whatever was called before");
  __CPROVER_assert(inv2(k) && inv2(gk), "_simple (pointer cache): cache invariant re-established (slot of the call and any other slot)");
  VACUITY_CANARY();
}
#endif
