// Contract declarations for the element kernels of coeffs_arithmetic.c.
// One ghost coefficient index G stands for "every coefficient" (DESIGN 3.S1 / 4.1).
#ifndef VERIF_COEFFS_CONTRACTS_H
#define VERIF_COEFFS_CONTRACTS_H
#include "vcommon.h"

GHOST uint64_t G;  // ghost coefficient index, universally quantified by the solver
GHOST uint64_t GT; // ghost image of G under the automorphism index map: GT == G*GP mod 2*GNN
GHOST int64_t GP;   // ghost copy of the automorphism exponent p
GHOST uint64_t GNN; // ghost copy of the dimension nn
GHOST _Bool GREL;   // the relation GT == AUT_E(G, GP, GNN), evaluated ONCE by the harness (SET_AUT_GHOSTS): contracts
                    // require GREL && p == GP && nn == GNN, so that a caller's proof hands the relation on as a boolean
                    // instead of re-proving the equality of two multiplier circuits (beyond SAT even at 17 bits)
// only the residue mod 2nn <= 2^17 matters: both factors are first reduced mod 2^17
#define AUT_E(g, p, nn) ((((uint64_t)(g) & 0x1FFFFu) * ((uint64_t)(p) & 0x1FFFFu)) & (2 * (nn)-1))
#define SET_AUT_GHOSTS() do { G = nondet_u64(); GT = nondet_u64(); GP = nondet_i64(); GNN = nondet_u64(); GREL = (GT == AUT_E(G, GP, GNN)); } while (0)
#define AUT_REL(p, nn) (GREL && (p) == GP && (nn) == GNN)

void znx_add_i64_ref(uint64_t nn, int64_t* res, const int64_t* a, const int64_t* b);
void znx_sub_i64_ref(uint64_t nn, int64_t* res, const int64_t* a, const int64_t* b);
void znx_negate_i64_ref(uint64_t nn, int64_t* res, const int64_t* a);
void znx_copy_i64_ref(uint64_t nn, int64_t* res, const int64_t* a);
void znx_zero_i64_ref(uint64_t nn, int64_t* res);
void znx_add_i64_avx(uint64_t nn, int64_t* res, const int64_t* a, const int64_t* b);
void znx_sub_i64_avx(uint64_t nn, int64_t* res, const int64_t* a, const int64_t* b);
void znx_negate_i64_avx(uint64_t nn, int64_t* res, const int64_t* a);
void znx_normalize(uint64_t nn, uint64_t base_k, int64_t* out, int64_t* carry_out, const int64_t* in,
                   const int64_t* carry_in);

// ---- res = a + b (wrap-around int64), all aliasing patterns res==a, res==b, a==b
void znx_add__c(uint64_t nn, int64_t* res, const int64_t* a, const int64_t* b)
__CPROVER_requires(nn <= MAXN && G < nn)
__CPROVER_requires(__CPROVER_is_fresh(res, nn * 8))
__CPROVER_requires(a == res || __CPROVER_is_fresh(a, nn * 8))
__CPROVER_requires(b == res || b == a || __CPROVER_is_fresh(b, nn * 8))
__CPROVER_assigns(__CPROVER_object_upto(res, nn * 8))
__CPROVER_ensures(res[G] == WADD(__CPROVER_old(a[G]), __CPROVER_old(b[G]))) /*@add_value:C08,C13,C15,C07*/
__CPROVER_ensures(a == res || a[G] == __CPROVER_old(a[G])) /*@add_src_a_unchanged:C18,C08*/
__CPROVER_ensures(b == res || b[G] == __CPROVER_old(b[G])) /*@add_src_b_unchanged:C18,C08*/
;

void znx_sub__c(uint64_t nn, int64_t* res, const int64_t* a, const int64_t* b)
__CPROVER_requires(nn <= MAXN && G < nn)
__CPROVER_requires(__CPROVER_is_fresh(res, nn * 8))
__CPROVER_requires(a == res || __CPROVER_is_fresh(a, nn * 8))
__CPROVER_requires(b == res || b == a || __CPROVER_is_fresh(b, nn * 8))
__CPROVER_assigns(__CPROVER_object_upto(res, nn * 8))
__CPROVER_ensures(res[G] == WSUB(__CPROVER_old(a[G]), __CPROVER_old(b[G]))) /*@sub_value:C08,C13,C15,C07*/
__CPROVER_ensures(a == res || a[G] == __CPROVER_old(a[G])) /*@sub_src_a_unchanged:C18,C08*/
__CPROVER_ensures(b == res || b[G] == __CPROVER_old(b[G])) /*@sub_src_b_unchanged:C18,C08*/
;

void znx_negate__c(uint64_t nn, int64_t* res, const int64_t* a)
__CPROVER_requires(nn <= MAXN && G < nn)
__CPROVER_requires(__CPROVER_is_fresh(res, nn * 8))
__CPROVER_requires(a == res || __CPROVER_is_fresh(a, nn * 8))
__CPROVER_assigns(__CPROVER_object_upto(res, nn * 8))
__CPROVER_ensures(res[G] == WNEG(__CPROVER_old(a[G]))) /*@negate_value:C08,C13,C15,C07*/
__CPROVER_ensures(a == res || a[G] == __CPROVER_old(a[G])) /*@negate_src_unchanged:C18,C08*/
;

// enforce runs: -DCOPY_ALIAS=0 (separate buffers, memcpy's no-overlap precondition is checked) and -DCOPY_ALIAS=1
// (a == res exactly: memcpy(p,p,n), the exact self-overlap the in-place vec_znx_copy relies on, waived by name 4.2)
#if defined(COPY_ALIAS) && COPY_ALIAS == 0
#define COPY_REQ_A __CPROVER_is_fresh(a, nn * 8)
#elif defined(COPY_ALIAS)
#define COPY_REQ_A (a == res)
#else
#define COPY_REQ_A (a == res || __CPROVER_is_fresh(a, nn * 8))
#endif
void znx_copy__c(uint64_t nn, int64_t* res, const int64_t* a)
__CPROVER_requires(nn <= MAXN && G < nn)
__CPROVER_requires(__CPROVER_is_fresh(res, nn * 8))
__CPROVER_requires(COPY_REQ_A)
__CPROVER_assigns(__CPROVER_object_upto(res, nn * 8))
__CPROVER_ensures(res[G] == __CPROVER_old(a[G])) /*@copy_value:C08,C13,C15*/
__CPROVER_ensures(a == res || a[G] == __CPROVER_old(a[G])) /*@copy_src_unchanged:C18,C08*/
;

void znx_zero__c(uint64_t nn, int64_t* res)
__CPROVER_requires(nn <= MAXN && G < nn)
__CPROVER_requires(__CPROVER_is_fresh(res, nn * 8))
__CPROVER_assigns(__CPROVER_object_upto(res, nn * 8))
__CPROVER_ensures(res[G] == 0) /*@zero_value:C08,C15*/
;

// ---- single-limb normalization primitive: in + carry_in == out + carry_out * 2^k, out balanced.
// Absent arguments: carry_in==NULL reads as 0; out==NULL only the carry is produced (for the balanced
// digit of in+carry_in); carry_out==NULL only the digit.  carry_in==carry_out and out==in are admitted.
// Enforce runs are specialised by -DNRM_OUT/-DNRM_COUT/-DNRM_CIN (0: that argument is NULL, 1: non-NULL) and
// -DNRM_K=<k>: one run per NULL-pattern and per k in 1..62 -- the six patterns cover the precondition and the 62
// values are all of k's domain, so the family of runs is the contract for every k (probe: symbolic k makes the
// 128-bit equation a >60 s SAT problem, a concrete k 0.3 s; a pointer that may be NULL *or* aliased *or* fresh
// makes the havoc targets ambiguous and exhausts memory).  In replace mode none is defined: general form.
#ifdef NRM_OUT
#if NRM_OUT
#define NRM_REQ_OUT __CPROVER_is_fresh(out, nn * 8)
#else
#define NRM_REQ_OUT (out == 0)
#endif
#if NRM_COUT
#define NRM_REQ_COUT __CPROVER_is_fresh(carry_out, nn * 8)
#else
#define NRM_REQ_COUT (carry_out == 0)
#endif
#if NRM_CIN
#define NRM_REQ_CIN (carry_in == carry_out || __CPROVER_is_fresh(carry_in, nn * 8))
#else
#define NRM_REQ_CIN (carry_in == 0)
#endif
#define NRM_REQ_K (base_k == NRM_K)
#else
#define NRM_REQ_OUT (out == 0 || __CPROVER_is_fresh(out, nn * 8))
#define NRM_REQ_COUT (carry_out == 0 || __CPROVER_is_fresh(carry_out, nn * 8))
#define NRM_REQ_CIN (carry_in == 0 || carry_in == carry_out || __CPROVER_is_fresh(carry_in, nn * 8))
#define NRM_REQ_K 1
#endif
#define P2(e) (((i128)1) << (e))
#define NRM_X(inG, cinG) ((i128)(inG) + (i128)(cinG))
// spec functions on mathematical (128-bit) integers: the balanced digit of x in base 2^k and the carry (x-digit)/2^k.
// They determine the outputs uniquely and are what the vector-level contracts compose (vec_norm.c).
#define NRM_DIG(x, k) ((((x) + P2((k)-1)) & (P2(k) - 1)) - P2((k)-1))
#define NRM_CAR(x, k) (((x)-NRM_DIG(x, k)) >> (k))
// each post is compiled only in the enforce runs whose NULL-pattern makes its antecedent true (elsewhere it is
// vacuously true and costs solver time); in replace mode (no NRM_OUT) all are present
#if !defined(NRM_OUT) || (NRM_OUT == 1)
#define ENS_NORM_DIGIT_BALANCED (out != 0 ==> (-P2(base_k - 1) <= out[G] && out[G] < P2(base_k - 1)))
#else
#define ENS_NORM_DIGIT_BALANCED 1
#endif
#if !defined(NRM_OUT) || (NRM_OUT == 1 && NRM_COUT == 1 && NRM_CIN == 1)
#define ENS_NORM_EQ_CIN_COUT ((out != 0 && carry_out != 0 && carry_in != 0) ==> NRM_X(__CPROVER_old(in[G]), __CPROVER_old(carry_in[G])) == (i128)out[G] + (((i128)carry_out[G]) << base_k))
#else
#define ENS_NORM_EQ_CIN_COUT 1
#endif
#if !defined(NRM_OUT) || (NRM_OUT == 1 && NRM_COUT == 1 && NRM_CIN == 0)
#define ENS_NORM_EQ_COUT ((out != 0 && carry_out != 0 && carry_in == 0) ==> (i128)__CPROVER_old(in[G]) == (i128)out[G] + (((i128)carry_out[G]) << base_k))
#else
#define ENS_NORM_EQ_COUT 1
#endif
#if !defined(NRM_OUT) || (NRM_OUT == 1 && NRM_COUT == 0 && NRM_CIN == 1)
#define ENS_NORM_DIGIT_CIN ((out != 0 && carry_out == 0 && carry_in != 0) ==> ((NRM_X(__CPROVER_old(in[G]), __CPROVER_old(carry_in[G])) - (i128)out[G]) & (P2(base_k) - 1)) == 0)
#else
#define ENS_NORM_DIGIT_CIN 1
#endif
#if !defined(NRM_OUT) || (NRM_OUT == 1 && NRM_COUT == 0 && NRM_CIN == 0)
#define ENS_NORM_DIGIT_ONLY ((out != 0 && carry_out == 0 && carry_in == 0) ==> ((((i128)__CPROVER_old(in[G])) - (i128)out[G]) & (P2(base_k) - 1)) == 0)
#else
#define ENS_NORM_DIGIT_ONLY 1
#endif
#if !defined(NRM_OUT) || (NRM_OUT == 0 && NRM_CIN == 1)
#define ENS_NORM_CARRY_ONLY_CIN ((out == 0 && carry_in != 0) ==> (-P2(base_k - 1) <= NRM_X(__CPROVER_old(in[G]), __CPROVER_old(carry_in[G])) - (((i128)carry_out[G]) << base_k) && NRM_X(__CPROVER_old(in[G]), __CPROVER_old(carry_in[G])) - (((i128)carry_out[G]) << base_k) < P2(base_k - 1)))
#else
#define ENS_NORM_CARRY_ONLY_CIN 1
#endif
#if !defined(NRM_OUT) || (NRM_OUT == 0 && NRM_CIN == 0)
#define ENS_NORM_CARRY_ONLY ((out == 0 && carry_in == 0) ==> (-P2(base_k - 1) <= ((i128)__CPROVER_old(in[G])) - (((i128)carry_out[G]) << base_k) && ((i128)__CPROVER_old(in[G])) - (((i128)carry_out[G]) << base_k) < P2(base_k - 1)))
#else
#define ENS_NORM_CARRY_ONLY 1
#endif
#if !defined(NRM_OUT) || (NRM_COUT == 1)
#define ENS_NORM_CARRY_BOUND (carry_out != 0 ==> (-P2(62) <= carry_out[G] && carry_out[G] <= P2(62)))
#else
#define ENS_NORM_CARRY_BOUND 1
#endif
#if !defined(NRM_OUT) || (NRM_OUT == 1 && NRM_CIN == 1)
#define ENS_NORM_DIGIT_FN_CIN ((out != 0 && carry_in != 0) ==> (i128)out[G] == NRM_DIG(NRM_X(__CPROVER_old(in[G]), __CPROVER_old(carry_in[G])), base_k))
#else
#define ENS_NORM_DIGIT_FN_CIN 1
#endif
#if !defined(NRM_OUT) || (NRM_OUT == 1 && NRM_CIN == 0)
#define ENS_NORM_DIGIT_FN ((out != 0 && carry_in == 0) ==> (i128)out[G] == NRM_DIG((i128)__CPROVER_old(in[G]), base_k))
#else
#define ENS_NORM_DIGIT_FN 1
#endif
#if !defined(NRM_OUT) || (NRM_COUT == 1 && NRM_CIN == 1)
#define ENS_NORM_CARRY_FN_CIN ((carry_out != 0 && carry_in != 0) ==> (i128)carry_out[G] == NRM_CAR(NRM_X(__CPROVER_old(in[G]), __CPROVER_old(carry_in[G])), base_k))
#else
#define ENS_NORM_CARRY_FN_CIN 1
#endif
#if !defined(NRM_OUT) || (NRM_COUT == 1 && NRM_CIN == 0)
#define ENS_NORM_CARRY_FN ((carry_out != 0 && carry_in == 0) ==> (i128)carry_out[G] == NRM_CAR((i128)__CPROVER_old(in[G]), base_k))
#else
#define ENS_NORM_CARRY_FN 1
#endif
#define ENS_NORM_SRC_UNCHANGED ((out != in) ==> in[G] == __CPROVER_old(in[G]))
#if !defined(NRM_OUT) || (NRM_CIN == 1)
#define ENS_NORM_CIN_UNCHANGED ((carry_in != 0 && carry_in != carry_out) ==> carry_in[G] == __CPROVER_old(carry_in[G]))
#else
#define ENS_NORM_CIN_UNCHANGED 1
#endif
void znx_normalize__c(uint64_t nn, uint64_t base_k, int64_t* out, int64_t* carry_out, const int64_t* in,
                      const int64_t* carry_in)
__CPROVER_requires(nn <= MAXN && G < nn && 1 <= base_k && base_k <= 62)
// NB: the assigned pointers are made fresh FIRST and the sources are "equal to it or fresh"; the other order
// (assigned pointer possibly equal to an earlier fresh one) makes the havoc target ambiguous and CBMC runs out of memory
__CPROVER_requires(NRM_REQ_OUT)
__CPROVER_requires((out != 0 && in == out) || __CPROVER_is_fresh(in, nn * 8))
__CPROVER_requires(NRM_REQ_COUT)
__CPROVER_requires(out != 0 || carry_out != 0)
__CPROVER_requires(NRM_REQ_K)
__CPROVER_requires(NRM_REQ_CIN)
__CPROVER_requires(-P2(62) <= in[G] && in[G] <= P2(62))
__CPROVER_requires(carry_in != 0 ==> (-P2(62) <= carry_in[G] && carry_in[G] <= P2(62)))
__CPROVER_assigns(out != 0: __CPROVER_object_upto(out, nn * 8); carry_out != 0: __CPROVER_object_upto(carry_out, nn * 8))

__CPROVER_ensures(ENS_NORM_DIGIT_BALANCED) /*@norm_digit_balanced:C05,C13*/
__CPROVER_ensures(ENS_NORM_EQ_CIN_COUT) /*@norm_eq_cin_cout:C05,C13*/
__CPROVER_ensures(ENS_NORM_EQ_COUT) /*@norm_eq_cout:C05,C13*/
__CPROVER_ensures(ENS_NORM_DIGIT_CIN) /*@norm_digit_cin:C05,C13*/
__CPROVER_ensures(ENS_NORM_DIGIT_ONLY) /*@norm_digit_only:C05,C13*/
__CPROVER_ensures(ENS_NORM_CARRY_ONLY_CIN) /*@norm_carry_only_cin:C05*/
__CPROVER_ensures(ENS_NORM_CARRY_ONLY) /*@norm_carry_only:C05*/
__CPROVER_ensures(ENS_NORM_CARRY_BOUND) /*@norm_carry_bound:C05*/
__CPROVER_ensures(ENS_NORM_DIGIT_FN_CIN) /*@norm_digit_fn_cin:C05,C13,C15*/
__CPROVER_ensures(ENS_NORM_DIGIT_FN) /*@norm_digit_fn:C05,C13,C15*/
__CPROVER_ensures(ENS_NORM_CARRY_FN_CIN) /*@norm_carry_fn_cin:C05,C13,C15*/
__CPROVER_ensures(ENS_NORM_CARRY_FN) /*@norm_carry_fn:C05,C13,C15*/
__CPROVER_ensures(ENS_NORM_SRC_UNCHANGED) /*@norm_src_unchanged:C18*/
__CPROVER_ensures(ENS_NORM_CIN_UNCHANGED) /*@norm_cin_unchanged:C18*/;

// Lean form used only with --replace-call-with-contract in the vector-level proofs: identical requires and assigns,
// and a SUBSET of the ensures above (same macros; the dropped ones are the equation forms, which follow from the
// functional form and only cost solver time at call sites).  A subset of the conjuncts of a proved contract is proved.
void znx_normalize__c_lean(uint64_t nn, uint64_t base_k, int64_t* out, int64_t* carry_out, const int64_t* in,
                      const int64_t* carry_in)
__CPROVER_requires(nn <= MAXN && G < nn && 1 <= base_k && base_k <= 62)
// NB: the assigned pointers are made fresh FIRST and the sources are "equal to it or fresh"; the other order
// (assigned pointer possibly equal to an earlier fresh one) makes the havoc target ambiguous and CBMC runs out of memory
__CPROVER_requires(NRM_REQ_OUT)
__CPROVER_requires((out != 0 && in == out) || __CPROVER_is_fresh(in, nn * 8))
__CPROVER_requires(NRM_REQ_COUT)
__CPROVER_requires(out != 0 || carry_out != 0)
__CPROVER_requires(NRM_REQ_K)
__CPROVER_requires(NRM_REQ_CIN)
__CPROVER_requires(-P2(62) <= in[G] && in[G] <= P2(62))
__CPROVER_requires(carry_in != 0 ==> (-P2(62) <= carry_in[G] && carry_in[G] <= P2(62)))
__CPROVER_assigns(out != 0: __CPROVER_object_upto(out, nn * 8); carry_out != 0: __CPROVER_object_upto(carry_out, nn * 8))

#ifndef LEAN_B
__CPROVER_ensures(ENS_NORM_DIGIT_BALANCED)
#endif
#ifndef LEAN_B
__CPROVER_ensures(ENS_NORM_CARRY_BOUND)
#endif
__CPROVER_ensures(ENS_NORM_DIGIT_FN_CIN)
__CPROVER_ensures(ENS_NORM_DIGIT_FN)
__CPROVER_ensures(ENS_NORM_CARRY_FN_CIN)
__CPROVER_ensures(ENS_NORM_CARRY_FN)
#ifndef LEAN_A
__CPROVER_ensures(ENS_NORM_SRC_UNCHANGED)
__CPROVER_ensures(ENS_NORM_CIN_UNCHANGED)
#endif
;

#endif
