// S3 contracts of the fft64 big-coefficient wrappers of arithmetic/vec_znx_big.c (C08, C13, C05): they forward to the
// public vec_znx_* dispatchers, which are replaced by the slot contracts (vec_znx.c / vec_rot.c / vec_norm.c texts).
// What is decided here is the forwarding: argument order, strides (a big vector has stride N), sizes.
#include "vec_znx_contracts.h"
#include "vec_rot_contracts.h"

#define RI64 ((int64_t*)res)
#define AI64 ((const int64_t*)a)
#define BI64 ((const int64_t*)b)
// big operands: stride N, extent exactly size*N coefficients
#define REQ_RES_BIG __CPROVER_is_fresh(res, RES_BYTES_(NN))
#if ALIAS == 1
#define REQ_A_BIG (a == res)
#define REQ_A_SMALL (a == (const int64_t*)res && a_sl == NN)
#else
#define REQ_A_BIG __CPROVER_is_fresh(a, A_BYTES_(NN))
#define REQ_A_SMALL __CPROVER_is_fresh(a, A_BYTES_(a_sl))
#endif
#if ALIAS == 2
#define REQ_B_BIG (b == res)
#define REQ_B_SMALL (b == (const int64_t*)res && b_sl == NN)
#else
#define REQ_B_BIG __CPROVER_is_fresh(b, B_BYTES_(NN))
#define REQ_B_SMALL __CPROVER_is_fresh(b, B_BYTES_(b_sl))
#endif
#define COMMON_BIG3(ASL, BSL, OP)                                                                            \
      __CPROVER_requires(REQ_GHOST_(NN))                                                                     \
      __CPROVER_assigns(__CPROVER_object_upto(res, RES_BYTES_(NN)))                                          \
      __CPROVER_ensures(RS == 0 || RI64[GL * NN + G] == OP(A_AT_(AI64, ASL), B_AT_(BI64, BSL)))              \
      __CPROVER_ensures(ENS_TAIL_(RI64, NN))

void big_add__c(const MODULE* module, VEC_ZNX_BIG* res, uint64_t res_size, const VEC_ZNX_BIG* a, uint64_t a_size, const VEC_ZNX_BIG* b, uint64_t b_size)
      __CPROVER_requires(REQ_MODULE && res_size == RS && a_size == AS && b_size == BS)
      __CPROVER_requires(REQ_RES_BIG) __CPROVER_requires(REQ_A_BIG) __CPROVER_requires(REQ_B_BIG) COMMON_BIG3(NN, NN, WADD); /*@big_add:C08,C13,C15*/
void big_sub__c(const MODULE* module, VEC_ZNX_BIG* res, uint64_t res_size, const VEC_ZNX_BIG* a, uint64_t a_size, const VEC_ZNX_BIG* b, uint64_t b_size)
      __CPROVER_requires(REQ_MODULE && res_size == RS && a_size == AS && b_size == BS)
      __CPROVER_requires(REQ_RES_BIG) __CPROVER_requires(REQ_A_BIG) __CPROVER_requires(REQ_B_BIG) COMMON_BIG3(NN, NN, WSUB); /*@big_sub:C08,C13,C15*/
void big_add_small__c(const MODULE* module, VEC_ZNX_BIG* res, uint64_t res_size, const VEC_ZNX_BIG* a, uint64_t a_size, const int64_t* b, uint64_t b_size, uint64_t b_sl)
      __CPROVER_requires(REQ_MODULE && res_size == RS && a_size == AS && b_size == BS && b_sl == NN * BM + BA)
      __CPROVER_requires(REQ_RES_BIG) __CPROVER_requires(REQ_A_BIG) __CPROVER_requires(REQ_B_SMALL) COMMON_BIG3(NN, b_sl, WADD); /*@big_add_small:C08,C13,C15*/
void big_sub_small_b__c(const MODULE* module, VEC_ZNX_BIG* res, uint64_t res_size, const VEC_ZNX_BIG* a, uint64_t a_size, const int64_t* b, uint64_t b_size, uint64_t b_sl)
      __CPROVER_requires(REQ_MODULE && res_size == RS && a_size == AS && b_size == BS && b_sl == NN * BM + BA)
      __CPROVER_requires(REQ_RES_BIG) __CPROVER_requires(REQ_A_BIG) __CPROVER_requires(REQ_B_SMALL) COMMON_BIG3(NN, b_sl, WSUB); /*@big_sub_small_b:C08,C13,C15*/
void big_sub_small_a__c(const MODULE* module, VEC_ZNX_BIG* res, uint64_t res_size, const int64_t* a, uint64_t a_size, uint64_t a_sl, const VEC_ZNX_BIG* b, uint64_t b_size)
      __CPROVER_requires(REQ_MODULE && res_size == RS && a_size == AS && b_size == BS && a_sl == NN * AM + AA)
      __CPROVER_requires(REQ_RES_BIG) __CPROVER_requires(REQ_A_SMALL) __CPROVER_requires(REQ_B_BIG) COMMON_BIG3(a_sl, NN, WSUB); /*@big_sub_small_a:C08,C13,C15*/
void big_add_small2__c(const MODULE* module, VEC_ZNX_BIG* res, uint64_t res_size, const int64_t* a, uint64_t a_size, uint64_t a_sl, const int64_t* b, uint64_t b_size, uint64_t b_sl)
      __CPROVER_requires(REQ_MODULE && res_size == RS && a_size == AS && b_size == BS && a_sl == NN * AM + AA && b_sl == NN * BM + BA)
      __CPROVER_requires(REQ_RES_BIG) __CPROVER_requires(REQ_A_SMALL) __CPROVER_requires(REQ_B_SMALL) COMMON_BIG3(a_sl, b_sl, WADD); /*@big_add_small2:C08,C13,C15*/
void big_sub_small2__c(const MODULE* module, VEC_ZNX_BIG* res, uint64_t res_size, const int64_t* a, uint64_t a_size, uint64_t a_sl, const int64_t* b, uint64_t b_size, uint64_t b_sl)
      __CPROVER_requires(REQ_MODULE && res_size == RS && a_size == AS && b_size == BS && a_sl == NN * AM + AA && b_sl == NN * BM + BA)
      __CPROVER_requires(REQ_RES_BIG) __CPROVER_requires(REQ_A_SMALL) __CPROVER_requires(REQ_B_SMALL) COMMON_BIG3(a_sl, b_sl, WSUB); /*@big_sub_small2:C08,C13,C15*/

void big_rotate__c(const MODULE* module, int64_t p, VEC_ZNX_BIG* res, uint64_t res_size, const VEC_ZNX_BIG* a, uint64_t a_size)
      __CPROVER_requires(REQ_MODULE && res_size == RS && a_size == AS && REQ_VROT)
      __CPROVER_requires(REQ_RES_BIG) __CPROVER_requires(REQ_A_BIG) __CPROVER_requires(REQ_GHOST_(NN))
      __CPROVER_assigns(__CPROVER_object_upto(res, RES_BYTES_(NN)))
      __CPROVER_ensures(RS == 0 || RI64[GL * NN + G] == SGNV(ROT_S(G, p, NN) < NN, A_AT_IDX_(AI64, NN, ROT_S(G, p, NN) & (NN - 1))))
      __CPROVER_ensures(ENS_TAIL_(RI64, NN)); /*@big_rotate:C09,C08,C13*/
void big_automorphism__c(const MODULE* module, int64_t p, VEC_ZNX_BIG* res, uint64_t res_size, const VEC_ZNX_BIG* a, uint64_t a_size)
      __CPROVER_requires(REQ_MODULE && res_size == RS && a_size == AS && REQ_VROT && (p & 1) == 1 && AUT_REL(p, NN))
      __CPROVER_requires(REQ_RES_BIG) __CPROVER_requires(REQ_A_BIG) __CPROVER_requires(REQ_GHOST_(NN))
      __CPROVER_assigns(__CPROVER_object_upto(res, RES_BYTES_(NN)))
      __CPROVER_ensures(RS == 0 || GL >= AS || RI64[GL * NN + (GT & (NN - 1))] == SGNV(GT < NN, A_AT_IDX_(AI64, NN, G)))
      __CPROVER_ensures(RS == 0 || GL < AS || RI64[GL * NN + G] == 0)
      __CPROVER_ensures(ENS_TAIL_(RI64, NN)); /*@big_automorphism:C09,C08,C13*/

#define BGHOSTS() do { SET_AUT_GHOSTS(); GL = nondet_u64(); GPAD = nondet_u64(); GX = nondet_u64(); } while (0)
void h_big_add(void) { const MODULE* m; VEC_ZNX_BIG* r; const VEC_ZNX_BIG *a, *b; uint64_t rs, as, bs; BGHOSTS(); fft64_vec_znx_big_add(m, r, rs, a, as, b, bs); VACUITY_CANARY(); }
void h_big_sub(void) { const MODULE* m; VEC_ZNX_BIG* r; const VEC_ZNX_BIG *a, *b; uint64_t rs, as, bs; BGHOSTS(); fft64_vec_znx_big_sub(m, r, rs, a, as, b, bs); VACUITY_CANARY(); }
void h_big_add_small(void) { const MODULE* m; VEC_ZNX_BIG* r; const VEC_ZNX_BIG* a; const int64_t* b; uint64_t rs, as, bs, bsl; BGHOSTS(); fft64_vec_znx_big_add_small(m, r, rs, a, as, b, bs, bsl); VACUITY_CANARY(); }
void h_big_sub_small_b(void) { const MODULE* m; VEC_ZNX_BIG* r; const VEC_ZNX_BIG* a; const int64_t* b; uint64_t rs, as, bs, bsl; BGHOSTS(); fft64_vec_znx_big_sub_small_b(m, r, rs, a, as, b, bs, bsl); VACUITY_CANARY(); }
void h_big_sub_small_a(void) { const MODULE* m; VEC_ZNX_BIG* r; const int64_t* a; const VEC_ZNX_BIG* b; uint64_t rs, as, asl, bs; BGHOSTS(); fft64_vec_znx_big_sub_small_a(m, r, rs, a, as, asl, b, bs); VACUITY_CANARY(); }
void h_big_add_small2(void) { const MODULE* m; VEC_ZNX_BIG* r; const int64_t *a, *b; uint64_t rs, as, asl, bs, bsl; BGHOSTS(); fft64_vec_znx_big_add_small2(m, r, rs, a, as, asl, b, bs, bsl); VACUITY_CANARY(); }
void h_big_sub_small2(void) { const MODULE* m; VEC_ZNX_BIG* r; const int64_t *a, *b; uint64_t rs, as, asl, bs, bsl; BGHOSTS(); fft64_vec_znx_big_sub_small2(m, r, rs, a, as, asl, b, bs, bsl); VACUITY_CANARY(); }
void h_big_rotate(void) { const MODULE* m; VEC_ZNX_BIG* r; const VEC_ZNX_BIG* a; uint64_t rs, as; int64_t p; BGHOSTS(); fft64_vec_znx_big_rotate(m, p, r, rs, a, as); VACUITY_CANARY(); }
void h_big_automorphism(void) { const MODULE* m; VEC_ZNX_BIG* r; const VEC_ZNX_BIG* a; uint64_t rs, as; int64_t p; BGHOSTS(); fft64_vec_znx_big_automorphism(m, p, r, rs, a, as); VACUITY_CANARY(); }
