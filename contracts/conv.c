// C14: numeric layout conversions, reference and accelerated, against the property's statements.
// Lane arithmetic is checked over the FULL domain of every lane (S2 when the dimension does not enter the arithmetic);
// the vector length is a concrete small M (the loops are unwound: S4 in length for the pointer-bumping AVX kernels).
// The precomp objects are built by the REAL init_* functions (table constructors are part of the checked text).
#include "vcommon.h"
#include "reim/reim_fft_private.h"
#include "cplx/cplx_fft_private.h"
#include <math.h>
#ifndef M
#define M 4 /* complex dimension: 2M reals */
#endif
#define NNR (2 * M)
#ifndef VARIANT
#define VARIANT 0
#endif
#ifndef GLANE
#define GLANE 0
#endif
static inline uint64_t dbits(double d) { union { double d; uint64_t u; } x; x.d = d; return x.u; }
static inline double dfrom(uint64_t u) { union { double d; uint64_t u; } x; x.u = u; return x.d; }
// a symbolic power of two 2^j, lo <= j <= hi, built from its bit pattern
static double pow2_sym(int lo, int hi, int* jout) {
  int j = nondet_int();
  __CPROVER_assume(lo <= j && j <= hi);
  *jout = j;
  return dfrom(((uint64_t)(1023 + j)) << 52);
}

// ---- int64 -> double, exact for |x| < 2^50            VARIANT 0: reim_from_znx64_ref, 1: reim_from_znx64_bnd50_fma
void h_from_znx64(void) {
  REIM_FROM_ZNX64_PRECOMP pre; pre.m = M;
  int64_t x[NNR]; double r[NNR];
  for (int i = 0; i < NNR; ++i) { x[i] = nondet_i64(); __CPROVER_assume(-(1LL << 50) < x[i] && x[i] < (1LL << 50)); }
#if VARIANT == 0
  reim_from_znx64_ref(&pre, r, x);
#else
  reim_from_znx64_bnd50_fma(&pre, r, x);
#endif
  uint64_t g = nondet_u64(); __CPROVER_assume(g < NNR);
  __CPROVER_assert(r[g] == (double)x[g], "from_znx64: result is the double nearest to x");
  __CPROVER_assert((int64_t)r[g] == x[g], "from_znx64: conversion is exact for |x| < 2^50 (converting back gives x)");
  VACUITY_CANARY();
}

// ---- double -> int64 with divisor d = 2^j: |r - v/d| <= 1/2   VARIANT 0 ref (|v/d|<2^52), 1 bnd50 (<2^50), 2 bnd63 (<2^52)
void h_to_znx64(void) {
  REIM_TO_ZNX64_PRECOMP pre; pre.m = M;
  int j; pre.divisor = pow2_sym(0, 40, &j);
  double v[NNR]; int64_t r[NNR];
  double lim = (VARIANT == 1) ? 0x1p50 : 0x1p52;
  for (int i = 0; i < NNR; ++i) {
    v[i] = nondet_double();
    __CPROVER_assume(!isnan(v[i]) && !isinf(v[i]) && fabs(v[i] / pre.divisor) < lim);
  }
#if VARIANT == 0
  reim_to_znx64_ref(&pre, r, v);
#elif VARIANT == 1
  reim_to_znx64_avx2_bnd50_fma(&pre, r, v);
#else
  reim_to_znx64_avx2_bnd63_fma(&pre, r, v);
#endif
  uint64_t g = nondet_u64(); __CPROVER_assume(g < NNR);
  double q = v[g] / pre.divisor;   // exact: d is a power of two, no underflow in range
  __CPROVER_assert(-lim <= (double)r[g] && (double)r[g] <= lim, "to_znx64: result in range");
  // exact comparison: r is an integer below 2^52, so r - 0.5 and r + 0.5 are representable and the two comparisons are
  // exact (computing r - q first would round a distance of 1/2 + 2^-54 down to 1/2)
  if (fabs(q) == 0x1.fffffffffffffp-2) {
    // the largest double below 1/2: see known_findings.json (bnd63 adds d/2 before truncating; 0.5-2^-54 + 0.5 rounds to 1)
    __CPROVER_assert((double)r[g] - 0.5 <= q && q <= (double)r[g] + 0.5, "to_znx64: result within 1/2 of v/d at the near-tie input |v/d| = 0.5 - 2^-54");
  } else {
    __CPROVER_assert((double)r[g] - 0.5 <= q && q <= (double)r[g] + 0.5, "to_znx64: result within 1/2 of v/d");
  }
  VACUITY_CANARY();
}

// ---- the same through the table constructor and the dispatcher: init_reim_to_znx64_precomp(m, d, log2bound) selects the
// kernel; whatever it selects (either outcome of __builtin_cpu_supports) must be within 1/2 for |v/d| < 2^min(log2bound,52)
#ifndef LOG2BOUND
#define LOG2BOUND 50
#endif
void h_to_znx64_dispatch(void) {
  REIM_TO_ZNX64_PRECOMP pre;
  int j; double d = pow2_sym(0, 20, &j);
  double dinv = dfrom(((uint64_t)(1023 - j)) << 52);
  void* ok = init_reim_to_znx64_precomp(&pre, M, d, LOG2BOUND);
  __CPROVER_assert(ok != 0, "init_reim_to_znx64_precomp accepts log2bound <= 64 and divisor 2^j");
  double v[NNR]; int64_t r[NNR];
  double lim = (LOG2BOUND >= 52) ? 0x1p52 : dfrom(((uint64_t)(1023 + LOG2BOUND)) << 52);
  uint64_t g = GLANE;
  for (int i = 0; i < NNR; ++i) v[i] = nondet_double();
  __CPROVER_assume(!isnan(v[g]) && !isinf(v[g]) && fabs(v[g] * dinv) < lim);
  reim_to_znx64(&pre, r, v);
  double q = v[g] * dinv;
  if (fabs(q) == 0x1.fffffffffffffp-2) {
    __CPROVER_assert((double)r[g] - 0.5 <= q && q <= (double)r[g] + 0.5, "to_znx64 (dispatched): result within 1/2 of v/d at the near-tie input |v/d| = 0.5 - 2^-54");
  } else {
    __CPROVER_assert((double)r[g] - 0.5 <= q && q <= (double)r[g] + 0.5, "to_znx64 (dispatched): result within 1/2 of v/d for |v/d| < 2^min(log2bound,52)");
  }
  VACUITY_CANARY();
}

// ---- double -> torus double: r = x/d - nearest integer, within 2^(ovh-50), |x/d| <= 2^ovh, ovh in 0..48
//      VARIANT 0 reim_to_tnx_ref, 1 reim_to_tnx_avx; the table is built by the real init_reim_to_tnx_precomp
void h_to_tnx(void) {
  REIM_TO_TNX_PRECOMP pre;
  uint32_t ovh = nondet_u32();
#ifdef OVH
  __CPROVER_assume(ovh == OVH);
#endif
  __CPROVER_assume(ovh <= 48);
  int j; double d = pow2_sym(0, 20, &j);
  double dinv = dfrom(((uint64_t)(1023 - j)) << 52);   // 1/d, exact
  void* ok = init_reim_to_tnx_precomp(&pre, M, d, ovh);
  __CPROVER_assert(ok != 0, "init_reim_to_tnx_precomp accepts every log2overhead in 0..48 and divisor 2^j");
  double x[NNR], r[NNR];
  double bound = dfrom(((uint64_t)(1023 + ovh)) << 52);           // 2^ovh
  double tol = dfrom(((uint64_t)(1023 + (int)ovh - 50)) << 52);   // 2^(ovh-50)
  // only lane g is constrained and inspected (the others are arbitrary finite-or-not values: lanes are independent)
#ifdef GLANE
  uint64_t g = GLANE;
#else
  uint64_t g = nondet_u64(); __CPROVER_assume(g < NNR);
#endif
  for (int i = 0; i < NNR; ++i) x[i] = nondet_double();
  __CPROVER_assume(!isnan(x[g]) && !isinf(x[g]) && fabs(x[g] * dinv) <= bound);
#if VARIANT == 0
  reim_to_tnx_ref(&pre, r, x);
#else
  reim_to_tnx_avx(&pre, r, x);
#endif
  double q = x[g] * dinv;          // x/d exactly (d = 2^j, j >= 0, no underflow: |x| finite, result may only lose denormal bits)
  double want = q - rint(q);
  // the torus is R/Z: compare modulo 1 (a tie or a boundary case may land on the other representative)
  double e = r[g] - want;
  __CPROVER_assert(fabs(e) <= tol || fabs(e - 1.0) <= tol || fabs(e + 1.0) <= tol, "to_tnx: x/d minus its nearest integer, within 2^(log2overhead-50) (mod 1)");
  __CPROVER_assert(-0.5 - tol <= r[g] && r[g] <= 0.5 + tol, "to_tnx: result is a centered torus representative");
  VACUITY_CANARY();
}

// ---- int32 -> complex, exact for every int32 (integer and torus scaling by 2^-32)   VARIANT 0 ref, 1 avx2_fma
void h_cplx_from_znx32(void) {
  CPLX_FROM_ZNX32_PRECOMP pre; pre.m = M;
  int32_t x[NNR]; double r[NNR];
  for (int i = 0; i < NNR; ++i) x[i] = (int32_t)nondet_u32();
#if VARIANT == 0
  cplx_from_znx32_ref(&pre, r, x);
#else
  cplx_from_znx32_avx2_fma(&pre, r, x);
#endif
  uint64_t g = nondet_u64(); __CPROVER_assume(g < M);
  __CPROVER_assert(r[2 * g] == (double)x[g] && r[2 * g + 1] == (double)x[M + g], "cplx_from_znx32: exact, re from first half, im from second half");
  VACUITY_CANARY();
}
void h_cplx_from_tnx32(void) {
  CPLX_FROM_TNX32_PRECOMP pre; pre.m = M;
  int32_t x[NNR]; double r[NNR];
  for (int i = 0; i < NNR; ++i) x[i] = (int32_t)nondet_u32();
#if VARIANT == 0
  cplx_from_tnx32_ref(&pre, r, x);
#else
  cplx_from_tnx32_avx2_fma(&pre, r, x);
#endif
  uint64_t g = nondet_u64(); __CPROVER_assume(g < M);
  __CPROVER_assert(r[2 * g] == (double)x[g] * 0x1p-32 && r[2 * g + 1] == (double)x[M + g] * 0x1p-32, "cplx_from_tnx32: exactly x * 2^-32");
  VACUITY_CANARY();
}
// ---- complex -> torus32: round(x*2^32/d) mod 2^32 for |x/d| < 2^18      VARIANT 0 ref, 1 avx2_fma
void h_cplx_to_tnx32(void) {
  CPLX_TO_TNX32_PRECOMP pre; pre.m = M;
  int j; pre.divisor = pow2_sym(0, 20, &j);
  double x[NNR]; int32_t r[NNR];
  for (int i = 0; i < NNR; ++i) { x[i] = nondet_double(); __CPROVER_assume(!isnan(x[i]) && !isinf(x[i]) && fabs(x[i] / pre.divisor) < 0x1p18); }
#if VARIANT == 0
  cplx_to_tnx32_ref(&pre, r, x);
#else
  cplx_to_tnx32_avx2_fma(&pre, r, x);
#endif
  uint64_t g = nondet_u64(); __CPROVER_assume(g < NNR);
  uint64_t src = (g < M) ? 2 * g : 2 * (g - M) + 1;   // outre = r[0..M), outim = r[M..2M)
  double t = x[src] / pre.divisor * 0x1p32;           // exact scalings by powers of two, |t| < 2^50
  int64_t want = (int64_t)rint(t);
  // exact .5 ties: either neighbour is accepted (the property excludes the rounding direction of ties)
  int64_t got = (int64_t)r[g];
  int64_t diff = (want - got) & 0xFFFFFFFFLL;
  _Bool tie = (fabs(t - trunc(t)) == 0.5);
  __CPROVER_assert(diff == 0 || (tie && (diff == 1 || diff == 0xFFFFFFFFLL)), "cplx_to_tnx32: round(x*2^32/d) modulo 2^32");
  VACUITY_CANARY();
}
