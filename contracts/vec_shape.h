// Shape macros shared by the S3 contract files (concrete limb counts / strides / aliasing per run).
#ifndef VERIF_VEC_SHAPE_H
#define VERIF_VEC_SHAPE_H
#include "arithmetic/vec_znx_arithmetic_private.h"
#include "coeffs_contracts.h"

#ifndef RS
#define RS 2
#endif
#ifndef AS
#define AS 2
#endif
#ifndef BS
#define BS 2
#endif
#ifndef RM
#define RM 1
#define RA 0
#endif
#ifndef AM
#define AM 1
#define AA 0
#endif
#ifndef BM
#define BM 1
#define BA 0
#endif
#ifndef ALIAS
#define ALIAS 0
#endif
#ifndef GQ
#define GQ 0
#endif

GHOST uint64_t GL;    // ghost limb index (< RS)
GHOST uint64_t GPAD;  // ghost padding offset inside limb GQ: nn <= GPAD < res_sl
GHOST uint64_t GX;    // ghost limb index in [RS, extent) of an aliased, longer input

#define NN (module->nn)
// bytes of a vector of `size` limbs of stride `sl`: exactly up to the last coefficient of the last limb.
// REXT = extent (in limbs) of the res object: when an input is the very same buffer it must hold the longer of the
// two; it is computed by the job generator (max(RS,AS) for ALIAS 1, max(RS,BS) for ALIAS 2, else RS).
#ifndef REXT
#define REXT RS
#endif
#if REXT > 0
#define RES_BYTES_(sl) (((REXT - 1) * (sl) + NN) * 8)
#else
#define RES_BYTES_(sl) 0
#endif
#if AS > 0
#define A_BYTES_(sl) (((AS - 1) * (sl) + NN) * 8)
#else
#define A_BYTES_(sl) 0
#endif
#if BS > 0
#define B_BYTES_(sl) (((BS - 1) * (sl) + NN) * 8)
#else
#define B_BYTES_(sl) 0
#endif

#define RES_BYTES RES_BYTES_(res_sl)
#define A_BYTES A_BYTES_(a_sl)
#define B_BYTES B_BYTES_(b_sl)
#define REQ_MODULE __CPROVER_is_fresh(module, sizeof(MODULE)) && 1 <= NN && NN <= MAXN
#define REQ_SHAPE3 res_size == RS && a_size == AS && b_size == BS && res_sl == NN * RM + RA && a_sl == NN * AM + AA && b_sl == NN * BM + BA
#define REQ_SHAPE2 res_size == RS && a_size == AS && res_sl == NN * RM + RA && a_sl == NN * AM + AA
#define REQ_GHOST_(rsl) G < NN && (RS == 0 || GL < RS) && (!HAS_PAD || (NN <= GPAD && GPAD < (rsl))) && (REXT <= RS || (RS <= GX && GX < REXT))
#define REQ_GHOST REQ_GHOST_(res_sl)

#if ALIAS == 1
#define REQ_A (a == res && a_sl == res_sl)
#else
#define REQ_A __CPROVER_is_fresh(a, A_BYTES)
#endif
#if ALIAS == 2
#define REQ_B (b == res && b_sl == res_sl)
#elif ALIAS == 3
#define REQ_B (b == a && b_sl == a_sl && BS == AS)
#else
#define REQ_B __CPROVER_is_fresh(b, B_BYTES)
#endif

// value of input limb GL at coefficient G, an absent limb reads as zero (index clamped so that old() stays in bounds)
#if AS > 0
#define A_AT_(A, sl) (GL < AS ? __CPROVER_old((A)[(GL < AS ? GL : 0) * (sl) + G]) : 0)
#define A_AT A_AT_(a, a_sl)
#else
#define A_AT_(A, sl) 0
#define A_AT 0
#endif
#if BS > 0
#define B_AT_(B, sl) (GL < BS ? __CPROVER_old((B)[(GL < BS ? GL : 0) * (sl) + G]) : 0)
#define B_AT B_AT_(b, b_sl)
#else
#define B_AT_(B, sl) 0
#define B_AT 0
#endif

// padding of every limb q with q+1 < REXT (it exists when the stride exceeds nn) is bit-for-bit unchanged: one ghost
// offset GPAD in [nn, res_sl), one post per limb (limb indices concrete, at most 3 for the box REXT <= 4)
#if (RM > 1 || RA > 0) && REXT > 1
#define HAS_PAD 1
#define PADQ_(R, sl, q) ((R)[(q) * (sl) + GPAD] == __CPROVER_old((R)[(q) * (sl) + GPAD]))
#define PADQ(q) PADQ_(res, res_sl, q)
#else
#define HAS_PAD 0
#define PADQ(q) 1
#endif
#if REXT > 3
#define ENS_PAD (PADQ(0) && PADQ(1) && PADQ(2))
#elif REXT > 2
#define ENS_PAD (PADQ(0) && PADQ(1))
#else
#define ENS_PAD PADQ(0)
#endif
// limbs of an aliased longer input beyond res_size are not written
#define ENS_TAIL_(R, sl) (REXT <= RS || (R)[GX * (sl) + G] == __CPROVER_old((R)[(REXT <= RS ? 0 : GX * (sl) + G)]))
#define ENS_TAIL ENS_TAIL_(res, res_sl)

#endif
