// harnesses of the vector rotate/automorphism S3 proofs (contracts in vec_rot_contracts.h)
#include "vec_rot_contracts.h"
#define HR(hname, fn)                                                                       \
  void hname(void) {                                                                        \
    const MODULE* module; int64_t* res; const int64_t* a; int64_t p;                         \
    uint64_t res_size, res_sl, a_size, a_sl;                                                 \
    SET_AUT_GHOSTS(); GL = nondet_u64(); GPAD = nondet_u64(); GX = nondet_u64(); \
    fn(module, p, res, res_size, res_sl, a, a_size, a_sl);                                   \
    VACUITY_CANARY();                                                                        \
  }
HR(h_vec_znx_rotate_ref, vec_znx_rotate_ref)
HR(h_vec_znx_automorphism_ref, vec_znx_automorphism_ref)
