// Common definitions for contract files (never included by /repo).
#ifndef VERIF_VCOMMON_H
#define VERIF_VCOMMON_H
#include <stddef.h>
#include <stdint.h>

// file-scope ghost variables are declared with this marker so that the runner can list them
#define GHOST

typedef __int128 i128;
typedef unsigned __int128 u128;

#ifdef NATIVE_REPLAY
#define __CPROVER_bitvector_native_unsupported 1
#endif
uint64_t nondet_u64(void);
int64_t nondet_i64(void);
uint32_t nondet_u32(void);
int nondet_int(void);
double nondet_double(void);
_Bool nondet_bool(void);

#ifndef MAXN
#define MAXN 65536ULL
#endif

// every harness ends with this: it must FAIL, otherwise the run is vacuous (DESIGN 4.1)
#define VACUITY_CANARY() __CPROVER_assert(0, "VACUITY_CANARY")

#define IS_POW2(x) ((x) != 0 && (((x) & ((x)-1)) == 0))

// wrap-around int64 arithmetic written without signed overflow
#define WADD(a, b) ((int64_t)((uint64_t)(a) + (uint64_t)(b)))
#define WSUB(a, b) ((int64_t)((uint64_t)(a) - (uint64_t)(b)))
#define WNEG(a) ((int64_t)(0 - (uint64_t)(a)))

#endif
