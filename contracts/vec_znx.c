// harnesses of the vec_znx S3 proofs (contracts in vec_znx_contracts.h)
#include "vec_znx_contracts.h"

// ---------------------------------------------------------------- harnesses
#define GHOSTS() do { G = nondet_u64(); GL = nondet_u64(); GPAD = nondet_u64(); GX = nondet_u64(); } while (0)
#define H3(hname, fn)                                                                 \
  void hname(void) {                                                                  \
    const MODULE* module; int64_t* res; const int64_t *a, *b;                          \
    uint64_t res_size, res_sl, a_size, a_sl, b_size, b_sl;                             \
    GHOSTS();                                                                          \
    fn(module, res, res_size, res_sl, a, a_size, a_sl, b, b_size, b_sl);               \
    VACUITY_CANARY();                                                                  \
  }
#define H2(hname, fn)                                                                 \
  void hname(void) {                                                                  \
    const MODULE* module; int64_t* res; const int64_t* a;                              \
    uint64_t res_size, res_sl, a_size, a_sl;                                           \
    GHOSTS();                                                                          \
    fn(module, res, res_size, res_sl, a, a_size, a_sl);                                \
    VACUITY_CANARY();                                                                  \
  }
H3(h_vec_znx_add_ref, vec_znx_add_ref)
H3(h_vec_znx_sub_ref, vec_znx_sub_ref)
H3(h_vec_znx_add_avx, vec_znx_add_avx)
H3(h_vec_znx_sub_avx, vec_znx_sub_avx)
H2(h_vec_znx_negate_ref, vec_znx_negate_ref)
H2(h_vec_znx_negate_avx, vec_znx_negate_avx)
H2(h_vec_znx_copy_ref, vec_znx_copy_ref)
void h_vec_znx_zero_ref(void) {
  const MODULE* module; int64_t* res; uint64_t res_size, res_sl;
  GHOSTS();
  vec_znx_zero_ref(module, res, res_size, res_sl);
  VACUITY_CANARY();
}
