// C11 / C18: vector-matrix product wrappers of arithmetic/vector_matrix_product.c (reference): memory contract and frames.
// Shape parameters concrete per run: RS (res_size) AS (a_size) NR NC (matrix), NBIG 1: N >= 8 (blocked layout), 0: N in {2,4}.
// Callees are replaced by ASSUMED frame-only contracts stating exactly the extents their documentation gives.
#include "arithmetic/vec_znx_arithmetic_private.h"
#include "reim/reim_fft_private.h"
#include "reim4/reim4_arithmetic.h"
#include "vcommon.h"
#ifndef RS
#define RS 2
#define AS 2
#define NR 2
#define NC 2
#define NBIG 1
#endif
GHOST uint64_t G;
GHOST uint64_t GL;
#define NN (module->nn)
#define MH (module->m)
#if NR < AS
#define ROWMAX NR
#else
#define ROWMAX AS
#endif
#if NC < RS
#define COLMAX NC
#else
#define COLMAX RS
#endif
#ifdef NCONC
#define TABLE_OK(t) ((t)->m == NCONC / 2)
#else
#define TABLE_OK(t) (__CPROVER_is_fresh(t, sizeof(*(t))) && (t)->m >= 1 && (t)->m <= MAXN / 2)
#endif
// ---- assumed callee frames
void reim4_extract_1blk_from_contiguous_reim_ref__c(uint64_t m, uint64_t nrows, uint64_t blk, double* const dst, const double* const src)
__CPROVER_requires(4 <= m && m <= MAXN / 2 && blk < (m >> 2) && nrows <= 8)
__CPROVER_requires(__CPROVER_is_fresh(dst, nrows * 64) && __CPROVER_is_fresh(src, nrows * m * 16))
__CPROVER_assigns(__CPROVER_object_upto(dst, nrows * 64));
void reim4_vec_mat2cols_product_ref__c(const uint64_t nrows, double* const dst, const double* const u, const double* const v)
__CPROVER_requires(nrows <= 8 && __CPROVER_is_fresh(dst, 128) && __CPROVER_is_fresh(u, nrows * 64) && __CPROVER_is_fresh(v, nrows * 128))
__CPROVER_assigns(__CPROVER_object_upto(dst, 128));
void reim4_vec_mat1col_product_ref__c(const uint64_t nrows, double* const dst, const double* const u, const double* const v)
__CPROVER_requires(nrows <= 8 && __CPROVER_is_fresh(dst, 64) && __CPROVER_is_fresh(u, nrows * 64) && __CPROVER_is_fresh(v, nrows * 64))
__CPROVER_assigns(__CPROVER_object_upto(dst, 64));
void reim4_save_1blk_to_reim_ref__c(uint64_t m, uint64_t blk, double* dst, const double* src)
__CPROVER_requires(4 <= m && m <= MAXN / 2 && blk < (m >> 2))
__CPROVER_requires(__CPROVER_is_fresh(dst, m * 16) && __CPROVER_is_fresh(src, 64))
__CPROVER_assigns(__CPROVER_object_upto(dst + 4 * blk, 32), __CPROVER_object_upto(dst + m + 4 * blk, 32));
void reim4_extract_1blk_from_reim_ref__c(uint64_t m, uint64_t blk, double* const dst, const double* const src)
__CPROVER_requires(4 <= m && m <= MAXN / 2 && blk < (m >> 2))
__CPROVER_requires(__CPROVER_is_fresh(dst, 64) && __CPROVER_is_fresh(src, m * 16))
__CPROVER_assigns(__CPROVER_object_upto(dst, 64));
void reim_fftvec_mul__c(const REIM_FFTVEC_MUL_PRECOMP* tables, double* r, const double* a, const double* b)
__CPROVER_requires(TABLE_OK(tables))
__CPROVER_requires(__CPROVER_is_fresh(r, tables->m * 16) && __CPROVER_is_fresh(a, tables->m * 16) && __CPROVER_is_fresh(b, tables->m * 16))
__CPROVER_assigns(__CPROVER_object_upto(r, tables->m * 16));
void reim_fftvec_addmul__c(const REIM_FFTVEC_ADDMUL_PRECOMP* tables, double* r, const double* a, const double* b)
__CPROVER_requires(TABLE_OK(tables))
__CPROVER_requires(__CPROVER_is_fresh(r, tables->m * 16) && __CPROVER_is_fresh(a, tables->m * 16) && __CPROVER_is_fresh(b, tables->m * 16))
__CPROVER_assigns(__CPROVER_object_upto(r, tables->m * 16));
void reim_from_znx64__c(const REIM_FROM_ZNX64_PRECOMP* tables, void* r, const int64_t* a)
__CPROVER_requires(TABLE_OK(tables))
__CPROVER_requires(__CPROVER_is_fresh(r, tables->m * 16) && __CPROVER_is_fresh(a, tables->m * 16))
__CPROVER_assigns(__CPROVER_object_upto(r, tables->m * 16));
void reim_fft__c(const REIM_FFT_PRECOMP* tables, double* data)
__CPROVER_requires(TABLE_OK(tables))
__CPROVER_requires(__CPROVER_is_fresh(data, tables->m * 16))
__CPROVER_assigns(__CPROVER_object_upto(data, tables->m * 16));

#ifdef NCONC
#define REQ_N (NN == NCONC)   /* bounded stand-in: concrete ring dimension (all strides concrete), see jobs_vec.vmp_jobs */
#elif NBIG
#define REQ_N (8 <= NN && NN <= MAXN)
#else
#define REQ_N (2 <= NN && NN <= 4)
#endif
#ifdef NCONC
// concrete mode: the harness builds the module and its four tables as concrete objects (constant nn, m), so that every stride
// is a constant for the symbolic executor; the contract only restates what the harness built
static MODULE GM; static REIM_FROM_ZNX64_PRECOMP GT_CONV; static REIM_FFT_PRECOMP GT_FFT; static REIM_FFTVEC_MUL_PRECOMP GT_MUL; static REIM_FFTVEC_ADDMUL_PRECOMP GT_ADDMUL;
static const MODULE* concrete_module(void) {
  GM.nn = NCONC; GM.m = NCONC / 2;
  GT_CONV.m = NCONC / 2; GT_FFT.m = NCONC / 2; GT_MUL.m = NCONC / 2; GT_ADDMUL.m = NCONC / 2;
  GM.mod.fft64.p_conv = &GT_CONV; GM.mod.fft64.p_fft = &GT_FFT; GM.mod.fft64.mul_fft = &GT_MUL; GM.mod.fft64.p_addmul = &GT_ADDMUL;
  return &GM;
}
#define WF_VMP (module == &GM && NN == NCONC && MH == NCONC / 2)
#else
#define WF_VMP WF_VMP_SYM
#endif
#define WF_VMP_SYM (__CPROVER_is_fresh(module, sizeof(MODULE)) && REQ_N && IS_POW2(NN) && MH == NN / 2 \
  && __CPROVER_is_fresh(module->mod.fft64.p_conv, sizeof(REIM_FROM_ZNX64_PRECOMP)) && module->mod.fft64.p_conv->m == MH \
  && __CPROVER_is_fresh(module->mod.fft64.p_fft, sizeof(REIM_FFT_PRECOMP)) && module->mod.fft64.p_fft->m == MH \
  && __CPROVER_is_fresh(module->mod.fft64.mul_fft, sizeof(REIM_FFTVEC_MUL_PRECOMP)) && module->mod.fft64.mul_fft->m == MH \
  && __CPROVER_is_fresh(module->mod.fft64.p_addmul, sizeof(REIM_FFTVEC_ADDMUL_PRECOMP)) && module->mod.fft64.p_addmul->m == MH)
#define BITS(v, i) (((const uint64_t*)(v))[i])
#if RS > COLMAX
#define ENS_ZERO_COLS (GL < COLMAX || BITS(res, GL * NN + G) == 0)
#else
#define ENS_ZERO_COLS 1
#endif
#if ROWMAX == 0 && COLMAX > 0
#define ENS_EMPTY_PRODUCT (GL >= COLMAX || BITS(res, GL * NN + G) == 0)
#else
#define ENS_EMPTY_PRODUCT 1
#endif
// scratch: exactly fft64_vmp_apply_dft_to_dft_tmp_bytes = 128 + 64*row_max bytes
void vmp_apply_dft_to_dft__c(const MODULE* module, VEC_ZNX_DFT* res, const uint64_t res_size, const VEC_ZNX_DFT* a_dft, uint64_t a_size,
                             const VMP_PMAT* pmat, const uint64_t nrows, const uint64_t ncols, uint8_t* tmp_space)
__CPROVER_requires(WF_VMP) __CPROVER_requires(res_size == RS && a_size == AS && nrows == NR && ncols == NC && G < NN && (RS == 0 || GL < RS))
// a_dft: only the min(nrows, a_size) usable rows need to exist (fft64_vmp_apply_dft_* pass a_size with a buffer of that many rows)
__CPROVER_requires(__CPROVER_is_fresh(res, RS * NN * 8) && __CPROVER_is_fresh(a_dft, ROWMAX * NN * 8) && __CPROVER_is_fresh(pmat, NR * NC * NN * 8))
__CPROVER_requires(__CPROVER_is_fresh(tmp_space, 128 + 64 * ROWMAX))
__CPROVER_assigns(__CPROVER_object_upto(res, RS * NN * 8), __CPROVER_object_upto(tmp_space, 128 + 64 * ROWMAX))
__CPROVER_ensures(ENS_ZERO_COLS) /*@vmp_columns_beyond_matrix_are_zero:C11,C18,C15*/
__CPROVER_ensures(ENS_EMPTY_PRODUCT) /*@vmp_product_with_zero_usable_rows_is_zero_not_scratch_garbage:C11,C15*/
;
// ---- the full product  fft64_vmp_apply_dft_{ref,avx}: scratch = [ DFT of the usable rows | 128-byte product buffer | 64 bytes per row ],
// exactly fft64_vmp_apply_dft_tmp_bytes bytes.  Call-site forms of the two callee contracts: a_dft and the inner scratch are
// two PARTS of the caller's scratch object, so they are described by r_ok / w_ok and an ordering instead of is_fresh.
#ifndef ASL_ADD
#define ASL_ADD 1
#endif
#define A_SL (NN + ASL_ADD)
#define A_EXT_BYTES ((AS == 0) ? 0 : ((AS - 1) * A_SL + NN) * 8)
void vec_znx_dft_site__c(const MODULE* module, VEC_ZNX_DFT* res, uint64_t res_size, const int64_t* a, uint64_t a_size, uint64_t a_sl)
__CPROVER_requires(WF_VMP && res_size == ROWMAX && a_size == AS && a_sl == A_SL)
__CPROVER_requires(__CPROVER_w_ok(res, ROWMAX * NN * 8) && __CPROVER_r_ok(a, A_EXT_BYTES))
__CPROVER_assigns(__CPROVER_object_upto(res, ROWMAX * NN * 8));
void vmp_apply_dft_to_dft_site__c(const MODULE* module, VEC_ZNX_DFT* res, const uint64_t res_size, const VEC_ZNX_DFT* a_dft, uint64_t a_size,
                                  const VMP_PMAT* pmat, const uint64_t nrows, const uint64_t ncols, uint8_t* tmp_space)
__CPROVER_requires(WF_VMP && res_size == RS && a_size == AS && nrows == NR && ncols == NC && G < NN && (RS == 0 || GL < RS))
__CPROVER_requires(__CPROVER_w_ok(res, RS * NN * 8) && __CPROVER_r_ok(a_dft, ROWMAX * NN * 8) && __CPROVER_r_ok(pmat, NR * NC * NN * 8) && __CPROVER_w_ok(tmp_space, 128 + 64 * ROWMAX))
__CPROVER_requires(!__CPROVER_same_object(a_dft, tmp_space) || (const uint8_t*)a_dft + ROWMAX * NN * 8 <= tmp_space)   /* the scratch parts do not overlap */
__CPROVER_requires(!__CPROVER_same_object(res, tmp_space) && !__CPROVER_same_object(res, a_dft))
__CPROVER_assigns(__CPROVER_object_upto(res, RS * NN * 8), __CPROVER_object_upto(tmp_space, 128 + 64 * ROWMAX))
__CPROVER_ensures(ENS_ZERO_COLS)
__CPROVER_ensures(ENS_EMPTY_PRODUCT)
;
void vmp_apply_dft__c(const MODULE* module, VEC_ZNX_DFT* res, uint64_t res_size, const int64_t* a, uint64_t a_size, uint64_t a_sl,
                      const VMP_PMAT* pmat, uint64_t nrows, uint64_t ncols, uint8_t* tmp_space)
__CPROVER_requires(WF_VMP && res_size == RS && a_size == AS && a_sl == A_SL && nrows == NR && ncols == NC && G < NN && (RS == 0 || GL < RS))
__CPROVER_requires(__CPROVER_is_fresh(res, RS * NN * 8) && __CPROVER_is_fresh(a, A_EXT_BYTES) && __CPROVER_is_fresh(pmat, NR * NC * NN * 8))
__CPROVER_requires(__CPROVER_is_fresh(tmp_space, ROWMAX * NN * 8 + 128 + 64 * ROWMAX))   /* == fft64_vmp_apply_dft_tmp_bytes, checked by vmp.tmp_bytes_formulas */
__CPROVER_assigns(__CPROVER_object_upto(res, RS * NN * 8), __CPROVER_object_upto(tmp_space, ROWMAX * NN * 8 + 128 + 64 * ROWMAX))
__CPROVER_ensures(ENS_ZERO_COLS) /*@vmp_apply_columns_beyond_matrix_are_zero:C11,C18,C15*/
__CPROVER_ensures(ENS_EMPTY_PRODUCT) /*@vmp_apply_with_zero_usable_rows_is_zero:C11,C15*/
;
void h_vmp_apply_dft(void) {
  const MODULE* m; VEC_ZNX_DFT* r; const int64_t* a; const VMP_PMAT* p; uint64_t rs = RS, as = AS, nr = NR, nc = NC; uint8_t* t;
  G = nondet_u64(); GL = nondet_u64();
#ifdef NCONC
  m = concrete_module();
  uint64_t asl = NCONC + ASL_ADD;
#else
  uint64_t asl;
#endif
#ifdef VMP_AVX
  fft64_vmp_apply_dft_avx(m, r, rs, a, as, asl, p, nr, nc, t);
#else
  fft64_vmp_apply_dft_ref(m, r, rs, a, as, asl, p, nr, nc, t);
#endif
  VACUITY_CANARY();
}
// prepare: scratch exactly fft64_vmp_prepare_contiguous_tmp_bytes = N*8 bytes; output exactly bytes_of_vmp_pmat
void vmp_prepare_contiguous__c(const MODULE* module, VMP_PMAT* pmat, const int64_t* mat, uint64_t nrows, uint64_t ncols, uint8_t* tmp_space)
__CPROVER_requires(WF_VMP) __CPROVER_requires(nrows == NR && ncols == NC)
__CPROVER_requires(__CPROVER_is_fresh(pmat, NR * NC * NN * 8) && __CPROVER_is_fresh(mat, NR * NC * NN * 8) && __CPROVER_is_fresh(tmp_space, NN * 8))
__CPROVER_assigns(__CPROVER_object_upto(pmat, NR * NC * NN * 8), __CPROVER_object_upto(tmp_space, NN * 8))
;
void h_vmp_apply_dft_to_dft(void) {
  const MODULE* m; VEC_ZNX_DFT* r; const VEC_ZNX_DFT* a; const VMP_PMAT* p; uint64_t rs = RS, as = AS, nr = NR, nc = NC; uint8_t* t;
  G = nondet_u64(); GL = nondet_u64();
#ifdef NCONC
  m = concrete_module();
#endif
#ifdef VMP_AVX
  fft64_vmp_apply_dft_to_dft_avx(m, r, rs, a, as, p, nr, nc, t);
#else
  fft64_vmp_apply_dft_to_dft_ref(m, r, rs, a, as, p, nr, nc, t);
#endif
  VACUITY_CANARY();
}
void h_vmp_prepare(void) {
  const MODULE* m; VMP_PMAT* p; const int64_t* mat; uint64_t nr = NR, nc = NC; uint8_t* t;
  G = nondet_u64(); GL = nondet_u64();
#ifdef NCONC
  m = concrete_module();
#endif
#ifdef VMP_AVX
  fft64_vmp_prepare_contiguous_avx(m, p, mat, nr, nc, t);
#else
  fft64_vmp_prepare_contiguous_ref(m, p, mat, nr, nc, t);
#endif
  VACUITY_CANARY();
}
void h_vmp_tmp_bytes(void) {
  // the values the contracts above use for the scratch and matrix extents ARE the values of the real size functions: every ring
  // dimension N = 2^j (j = 1..16) x every a_size, nrows, ncols in 0..3 (the shapes of the runs), res_size arbitrary.
  // (symbolic sizes make the two sides different multiplier circuits: undecided after 300 s)
  uint64_t rs = nondet_u64();
  for (int j = 1; j <= 16; ++j)
    for (uint64_t as = 0; as <= 3; ++as)
      for (uint64_t nr = 0; nr <= 3; ++nr) {
        MODULE mod; mod.nn = (uint64_t)1 << j; mod.m = mod.nn / 2;
        uint64_t rm = nr < as ? nr : as;
        for (uint64_t nc = 0; nc <= 3; ++nc) {
          __CPROVER_assert(fft64_vmp_apply_dft_to_dft_tmp_bytes(&mod, rs, as, nr, nc) == 128 + 64 * rm, "vmp_apply_dft_to_dft_tmp_bytes == 128 + 64*min(nrows,a_size)");
          __CPROVER_assert(fft64_vmp_apply_dft_tmp_bytes(&mod, rs, as, nr, nc) == rm * mod.nn * 8 + 128 + 64 * rm, "vmp_apply_dft_tmp_bytes == rows*N*8 + 128 + 64*rows");
          __CPROVER_assert(fft64_vmp_prepare_contiguous_tmp_bytes(&mod, nr, nc) == mod.nn * 8, "vmp_prepare_contiguous_tmp_bytes == N*8");
          __CPROVER_assert(fft64_bytes_of_vmp_pmat(&mod, nr, nc) == mod.nn * nr * nc * 8, "bytes_of_vmp_pmat == N*nrows*ncols*8");
        }
      }
  VACUITY_CANARY();
}
