// S3 contracts for the limb-vector wrappers of spqlios/arithmetic/vec_znx.c and vec_znx_avx.c (DESIGN 3.S3).
// Shape parameters are concrete per run (-D): RS AS BS limb counts; RM RA / AM AA / BM BA strides sl = nn*M + A;
// ALIAS 0 none, 1 res==a, 2 res==b, 3 a==b; GQ limb of the padding ghost.  nn, data, G (coefficient), GL (limb)
// and GPAD (padding offset) stay symbolic.  Element kernels are replaced by their S1 contracts.
#ifndef VERIF_VEC_ZNX_CONTRACTS_H
#define VERIF_VEC_ZNX_CONTRACTS_H
#include "vec_shape.h"

#define VEC3_CONTRACT(cname, OP)                                                                                   \
  void cname(const MODULE* module, int64_t* res, uint64_t res_size, uint64_t res_sl, const int64_t* a,             \
             uint64_t a_size, uint64_t a_sl, const int64_t* b, uint64_t b_size, uint64_t b_sl)                     \
      __CPROVER_requires(REQ_MODULE) __CPROVER_requires(REQ_SHAPE3)                                                \
      __CPROVER_requires(__CPROVER_is_fresh(res, RES_BYTES))                                         \
      __CPROVER_requires(REQ_A) __CPROVER_requires(REQ_B) __CPROVER_requires(REQ_GHOST)                            \
      __CPROVER_assigns(__CPROVER_object_upto(res, RES_BYTES))                                       \
      __CPROVER_ensures(RS == 0 || res[GL * res_sl + G] == OP(A_AT, B_AT))                                         \
      __CPROVER_ensures(ENS_PAD) __CPROVER_ensures(ENS_TAIL)

#define VEC2_CONTRACT(cname, OP)                                                                                   \
  void cname(const MODULE* module, int64_t* res, uint64_t res_size, uint64_t res_sl, const int64_t* a,             \
             uint64_t a_size, uint64_t a_sl)                                                                       \
      __CPROVER_requires(REQ_MODULE) __CPROVER_requires(REQ_SHAPE2)                                                \
      __CPROVER_requires(__CPROVER_is_fresh(res, RES_BYTES))                                         \
      __CPROVER_requires(REQ_A) __CPROVER_requires(REQ_GHOST)                                                      \
      __CPROVER_assigns(__CPROVER_object_upto(res, RES_BYTES))                                       \
      __CPROVER_ensures(RS == 0 || res[GL * res_sl + G] == OP(A_AT))                                               \
      __CPROVER_ensures(ENS_PAD) __CPROVER_ensures(ENS_TAIL)

#define ID(x) (x)
VEC3_CONTRACT(vec_znx_add__c, WADD); /*@vec_add_limb_value_pad_tail:C08,C13,C15,C07,C18*/
VEC3_CONTRACT(vec_znx_sub__c, WSUB); /*@vec_sub_limb_value_pad_tail:C08,C13,C15,C07,C18*/
VEC2_CONTRACT(vec_znx_negate__c, WNEG); /*@vec_negate_limb_value_pad_tail:C08,C13,C15,C07,C18*/
VEC2_CONTRACT(vec_znx_copy__c, ID); /*@vec_copy_limb_value_pad_tail:C08,C13,C15,C18*/

void vec_znx_zero__c(const MODULE* module, int64_t* res, uint64_t res_size, uint64_t res_sl)
    __CPROVER_requires(REQ_MODULE) __CPROVER_requires(res_size == RS && res_sl == NN * RM + RA)
    __CPROVER_requires(__CPROVER_is_fresh(res, RES_BYTES)) __CPROVER_requires(REQ_GHOST)
    __CPROVER_assigns(__CPROVER_object_upto(res, RES_BYTES))
    __CPROVER_ensures(RS == 0 || res[GL * res_sl + G] == 0) __CPROVER_ensures(ENS_PAD); /*@vec_zero_limb_value_pad:C08,C15*/

#endif
