// S4 (bounded in length, complete in lane values) checks of the AVX element kernels of coeffs_arithmetic_avx.c against
// the SAME post as the reference kernels' contract (coeffs_contracts.h: znx_add__c / znx_sub__c / znx_negate__c), for a
// concrete dimension NN, every aliasing pattern ALIAS (0 none, 1 res==a, 2 res==b, 3 a==b) and every 8-byte
// misalignment RO of the buffers (one run each).  The kernels advance __m256i pointers in do/while loops: no loop contract is possible
// (DESIGN P5), the loops are unwound.
#include "vcommon.h"
#include <string.h>
void znx_add_i64_avx(uint64_t nn, int64_t* res, const int64_t* a, const int64_t* b);
void znx_sub_i64_avx(uint64_t nn, int64_t* res, const int64_t* a, const int64_t* b);
void znx_negate_i64_avx(uint64_t nn, int64_t* res, const int64_t* a);
#ifndef NN
#define NN 8
#endif
#ifndef ALIAS
#define ALIAS 0
#endif
#ifndef RO
#define RO 0
#endif
#ifndef OP
#define OP 0 /* 0 add 1 sub 2 negate */
#endif
static int64_t RB[NN + 4], AB[NN + 4], BB[NN + 4], A0[NN], B0[NN];
void h_avx_elem(void) {
  // misalignment in int64 units: concrete per run (RO; a and b get different ones) -- symbolic offsets make every
  // 256-bit load a byte extraction at a symbolic offset (nn=32: 54 s / 3.5 GB instead of 0.1 s)
  unsigned ro = RO, ao = (RO + 1) % 4, bo = (RO + 2) % 4;
  int64_t* res = RB + ro;
  int64_t* a = ALIAS == 1 ? res : AB + ao;
  int64_t* b = ALIAS == 2 ? res : ALIAS == 3 ? a : BB + bo;
  for (int i = 0; i < NN; ++i) { A0[i] = a[i]; B0[i] = b[i]; }
  int64_t canary_lo = RB[ro ? ro - 1 : 0], canary_hi = RB[ro + NN];
#if OP == 0
  znx_add_i64_avx(NN, res, a, b);
#elif OP == 1
  znx_sub_i64_avx(NN, res, a, b);
#else
  znx_negate_i64_avx(NN, res, a);
#endif
  uint64_t g = nondet_u64();
  __CPROVER_assume(g < NN);
#if OP == 0
  __CPROVER_assert(res[g] == WADD(A0[g], B0[g]), "avx add: res[g] == a[g] + b[g] (same post as znx_add__c)");
#elif OP == 1
  __CPROVER_assert(res[g] == WSUB(A0[g], B0[g]), "avx sub: res[g] == a[g] - b[g] (same post as znx_sub__c)");
#else
  __CPROVER_assert(res[g] == WNEG(A0[g]), "avx negate: res[g] == -a[g] (same post as znx_negate__c)");
#endif
  __CPROVER_assert(ALIAS == 1 || a[g] == A0[g], "avx kernel: source a unchanged");
  __CPROVER_assert(ALIAS == 2 || ALIAS == 3 || OP == 2 || b[g] == B0[g], "avx kernel: source b unchanged");
  __CPROVER_assert(RB[ro + NN] == canary_hi && (ro == 0 || RB[ro - 1] == canary_lo), "avx kernel: nothing written outside res[0..nn)");
  VACUITY_CANARY();
}
