// C10, bounded in the vector length (S4, NN elements unwound), complete in the lane values: the q120 layout conversions
// against "machine word == integer expression without wrap" (same posts as q120_simple.c).  Needed because (1) the loop
// invariants of the %-based conversions would ask the SAT solver to prove two divider circuits equal on equal inputs
// (timeout), (2) dfcc havocs function-local statics (MASK_HI, OQ[], Q) of an enforced function.
#include "vcommon.h"
#include "q120/q120_arithmetic.h"
#include "q120/q120_common.h"
#ifndef NN
#define NN 2
#endif
static const uint64_t QS[4] = {Q1, Q2, Q3, Q4};
static const uint64_t CRT[4] = {Q1_CRT_CST, Q2_CRT_CST, Q3_CRT_CST, Q4_CRT_CST};
#define QQ ((i128)Q1 * Q2 * Q3 * Q4)
// the conversions defined with % are specified with the SAME operator on the same operand types (x mod q_k IS the
// specification); writing the spec any other way asks SAT to prove two 64-bit divider circuits equivalent (timeout)
#define CFB(k, Q) { uint32_t w0 = x[4 * g + k] % Q; \
    __CPROVER_assert(r[8 * g + 2 * k] == w0, "c_from_b: first word is x mod q_k"); \
    __CPROVER_assert(r[8 * g + 2 * k + 1] == (uint32_t)(((uint64_t)w0 << 32) % Q), "c_from_b: second word is (x mod q_k)*2^32 mod q_k"); \
    __CPROVER_assert(r[8 * g + 2 * k] < Q && r[8 * g + 2 * k + 1] < Q, "c_from_b: both words reduced"); }
void h_s4_c_from_b(void) {
  uint64_t x[4 * NN]; uint32_t r[8 * NN];
  for (int i = 0; i < 4 * NN; ++i) x[i] = nondet_u64();
  q120_c_from_b_simple(NN, (q120c*)r, (const q120b*)x);
  for (int g = 0; g < NN; ++g) { CFB(0, Q1) CFB(1, Q2) CFB(2, Q3) CFB(3, Q4) }
  VACUITY_CANARY();
}
void h_s4_b_from_znx64(void) {
  int64_t x[NN]; uint64_t r[4 * NN];
  for (int i = 0; i < NN; ++i) x[i] = nondet_i64();
  q120_b_from_znx64_simple(NN, (q120b*)r, x);
  for (int g = 0; g < NN; ++g) for (int k = 0; k < 4; ++k) {
    u128 oq = QS[k] - (UINT64_C(0x8000000000000000) % QS[k]);
    __CPROVER_assert((u128)r[4 * g + k] == (u128)((uint64_t)x[g] & 0x7FFFFFFFFFFFFFFFULL) + (x[g] < 0 ? oq : 0), "b_from_znx64: low 63 bits plus (q - 2^63 mod q) for negatives, no wrap");
    __CPROVER_assert((((u128)1 << 63) + oq) % QS[k] == 0, "b_from_znx64: the offset is congruent to -2^63 mod q_k");
  }
  VACUITY_CANARY();
}
#define CFZ(k, Q) { int64_t t = x[g] % (int64_t)Q; uint32_t w0 = (t < 0) ? t + (int64_t)Q : t; \
    __CPROVER_assert(r[8 * g + 2 * k] == w0, "c_from_znx64: first word is x mod q_k in [0,q)"); \
    __CPROVER_assert(r[8 * g + 2 * k + 1] == (uint32_t)(((uint64_t)w0 << 32) % Q), "c_from_znx64: second word is first*2^32 mod q_k"); \
    __CPROVER_assert(r[8 * g + 2 * k] < Q && r[8 * g + 2 * k + 1] < Q, "c_from_znx64: both words reduced"); }
void h_s4_c_from_znx64(void) {
  int64_t x[NN]; uint32_t r[8 * NN];
  for (int i = 0; i < NN; ++i) x[i] = nondet_i64();
  q120_c_from_znx64_simple(NN, (q120c*)r, x);
  for (int g = 0; g < NN; ++g) { CFZ(0, Q1) CFZ(1, Q2) CFZ(2, Q3) CFZ(3, Q4) }
  VACUITY_CANARY();
}
void h_s4_b_to_znx128(void) {
  uint64_t x[4 * NN]; __int128_t r[NN];
  for (int i = 0; i < 4 * NN; ++i) x[i] = nondet_u64();
  q120_b_to_znx128_simple(NN, r, (const q120b*)x);
  for (int g = 0; g < NN; ++g) {
    i128 s = 0;
    for (int k = 0; k < 4; ++k) s += (i128)(((x[4 * g + k] % QS[k]) * CRT[k]) % QS[k]) * (QQ / QS[k]);
    i128 t = s % QQ;
    __CPROVER_assert(r[g] == (t >= (QQ + 1) / 2 ? t - QQ : t), "b_to_znx128: centered representative of the CRT sum mod Q");
    __CPROVER_assert(-(QQ - 1) / 2 <= r[g] && r[g] <= (QQ - 1) / 2, "b_to_znx128: result in (-Q/2, Q/2)");
  }
  // the CRT constants of the header: (Q/q_k) * CRT_k == 1 mod q_k (constant arithmetic)
  for (int k = 0; k < 4; ++k) __CPROVER_assert((((QQ / QS[k]) % QS[k]) * CRT[k]) % QS[k] == 1, "CRT constant is the inverse of Q/q_k mod q_k");
  VACUITY_CANARY();
}

// ---- S5 (closed-term evaluation, not a proof): the centering boundary of b -> int128.  Finding lanes whose CRT sum hits
// exactly (Q-1)/2 is a 120-bit CRT inversion, out of reach of the SAT back end, so the boundary values are fed concretely:
// v in {(Q-1)/2, (Q+1)/2 (== -(Q-1)/2), 0, 1, -1, Q-1 (== -1)} as reduced and as unreduced (+ multiple of q_k) lanes.
void h_s5_b_to_znx128_boundary(void) {
  const i128 half = (QQ - 1) / 2;
  const i128 vs[6] = {half, half + 1, 0, 1, QQ - 1, half - 1};
  const i128 want[6] = {half, -half, 0, 1, -1, half - 1};
  for (int t = 0; t < 6; ++t) for (int unred = 0; unred < 2; ++unred) {
    uint64_t x[4]; __int128_t r[1];
    for (int k = 0; k < 4; ++k) x[k] = (uint64_t)(vs[t] % (i128)QS[k]) + (unred ? 3 * QS[k] * (uint64_t)0xFFFFFFFFULL : 0);
    q120_b_to_znx128_simple(1, r, (const q120b*)x);
    __CPROVER_assert(r[0] == want[t], "b_to_znx128 at the centering boundary: (Q-1)/2 stays, (Q+1)/2 becomes -(Q-1)/2 (unique centered representative)");
  }
  VACUITY_CANARY();
}

// ---- q120x2 block extract / save (q120_arithmetic_ref.c): mutually inverse copies of 8 words, all nn and block indices
void q120x2_extract_1blk_from_q120b_ref(uint64_t nn, uint64_t blk, q120x2b* const dst, const q120b* const src);
void q120x2b_save_1blk_to_q120b_ref(uint64_t nn, uint64_t blk, q120b* dest, const q120x2b* src);
void q120x2_extract_1blk_from_contiguous_q120b_ref(uint64_t nn, uint64_t nrows, uint64_t blk, q120x2b* const dst, const q120b* const src);
#ifndef XN
#define XN 8   /* concrete dimension of the backing arrays (blk symbolic below XN/2) */
#endif
void h_s4_q120x2_blocks(void) {
  static uint64_t src[4 * XN], dst[8], back[4 * XN], back0[4 * XN];
  for (int i = 0; i < 4 * XN; ++i) { src[i] = nondet_u64(); back0[i] = back[i] = nondet_u64(); }
  uint64_t blk = nondet_u64(); __CPROVER_assume(blk < XN / 2);
  q120x2_extract_1blk_from_q120b_ref(XN, blk, (q120x2b*)dst, (const q120b*)src);
  uint64_t k = nondet_u64(); __CPROVER_assume(k < 8);
  __CPROVER_assert(dst[k] == src[8 * blk + k], "q120x2 extract: block blk = the two q120 coefficients 2blk, 2blk+1 (8 words)");
  q120x2b_save_1blk_to_q120b_ref(XN, blk, (q120b*)back, (const q120x2b*)dst);
  uint64_t o = nondet_u64(); __CPROVER_assume(o < 4 * XN);
  __CPROVER_assert(back[8 * blk + k] == src[8 * blk + k], "q120x2 save after extract restores the block (mutually inverse)");
  __CPROVER_assert((8 * blk <= o && o < 8 * blk + 8) || back[o] == back0[o], "q120x2 save writes only the 8 words of the block");
  VACUITY_CANARY();
}
void h_s4_q120x2_contiguous(void) {
  static uint64_t src[3 * 4 * XN], dst[3 * 8 + 1];
  for (int i = 0; i < 3 * 4 * XN; ++i) src[i] = nondet_u64();
  uint64_t guard = dst[24];
  uint64_t blk = nondet_u64(); __CPROVER_assume(blk < XN / 2);
  q120x2_extract_1blk_from_contiguous_q120b_ref(XN, 3, blk, (q120x2b*)dst, (const q120b*)src);
  uint64_t r = nondet_u64(), k = nondet_u64(); __CPROVER_assume(r < 3 && k < 8);
  __CPROVER_assert(dst[8 * r + k] == src[r * 4 * XN + 8 * blk + k], "q120x2 contiguous extract: row r block blk");
  __CPROVER_assert(dst[24] == guard, "q120x2 contiguous extract: nothing written past 8*nrows words");
  VACUITY_CANARY();
}
