// C04 / C07 / C10: q120 vector-matrix products, AVX2 variants (q120_arithmetic_avx2.c).
//   * range + functional (S1, EVERY ell <= 10000): plain harness; the row loop (a `for` loop that also bumps two pointers) is
//     closed by a loop contract applied by the non-dfcc instrumentation (dfcc cannot: DESIGN D10).  No repository hook: the
//     ghost state hangs on the MODEL of _mm256_mul_epu32 (shim/builtins.c, SHIM_GHOST_MUL): calls are counted, the products of
//     the tracked accumulator are added (with their weight) to the exact ghost sum SHIM_MUL_SUM, the operands of iteration
//     GI are recorded, and the calls after the loop (the recombination) carry the obligation "operand fits 32 bits" (a silent
//     truncation there is what C04 forbids; inside the loop the library deliberately feeds full lanes and uses the low halves).
//     Obligations: no 64-bit lane addition of the function wraps (CBMC's unsigned-overflow check on every vector +), the
//     accumulator lanes equal the exact sum of the products (loop invariant), the result is the recombination of exactly those
//     accumulators with the table constants, the products of iteration GI are formed from x[GI], y[GI].
//   * equality with the reference product (S4, bounded: ell = ELL concrete, every operand value): bit-identical results.
#include "vcommon.h"
#include <stdlib.h>
#include <immintrin.h>
#include "q120/q120_arithmetic.h"
#include "q120/q120_arithmetic_private.h"
#include "q120/q120_common.h"
#ifndef LANE
#define LANE 0
#endif
#ifndef PROD
#define PROD 0 /* 0 a*a, 1 b*b, 2 b*c, 3 q120x2 one column, 4 q120x2 two columns */
#endif
#ifndef ROW
#define ROW 0 /* tracked result row of the block forms */
#endif
#ifndef HH
#define HH 47 /* precomp->h of the real constructor (read natively by the job generator, S5) */
#endif
#if PROD == 1
#define SHIM_WIDE_BITS 192
#else
#define SHIM_WIDE_BITS 128
#endif
typedef unsigned __CPROVER_bitvector[SHIM_WIDE_BITS] wide;
GHOST extern unsigned long SHIM_MUL_IT;
GHOST extern unsigned long SHIM_MUL_NIT;
GHOST extern unsigned SHIM_MUL_J;
GHOST extern unsigned long SHIM_MUL_REC_AT;
GHOST extern unsigned SHIM_MUL_PERIOD;
GHOST extern unsigned SHIM_LANE;
GHOST extern int SHIM_MUL_SHIFT[8];
GHOST extern wide SHIM_MUL_SUM;
GHOST extern unsigned long SHIM_MUL_REC_A[8];
GHOST extern unsigned long SHIM_MUL_REC_B[8];
GHOST extern unsigned long SHIM_MUL_FIN_A[8];
GHOST extern unsigned long SHIM_MUL_FIN_B[8];
GHOST extern unsigned long SHIM_MUL_FIN_P[8];   // the product the model returned for that call (== FIN_A*FIN_B by the model's definition)
static const uint64_t QS[4] = {Q1, Q2, Q3, Q4};
#define MASKH ((((uint64_t)1) << HH) - 1)
#define M32 0xFFFFFFFFull
#if PROD == 0
#define FN q120_vec_mat1col_product_baa_avx2
#define REFFN q120_vec_mat1col_product_baa_ref
#define PTYPE q120_mat1col_product_baa_precomp
#define XW 4
#define YW 4
#define RW 4
#define PER 1
#elif PROD == 1
#define FN q120_vec_mat1col_product_bbb_avx2
#define REFFN q120_vec_mat1col_product_bbb_ref
#define PTYPE q120_mat1col_product_bbb_precomp
#define XW 4
#define YW 4
#define RW 4
#define PER 4
#elif PROD == 2
#define FN q120_vec_mat1col_product_bbc_avx2
#define REFFN q120_vec_mat1col_product_bbc_ref
#define PTYPE q120_mat1col_product_bbc_precomp
#define XW 4
#define YW 4
#define RW 4
#define PER 2
#elif PROD == 3
#define FN q120x2_vec_mat1col_product_bbc_avx2
#define REFFN q120x2_vec_mat1col_product_bbc_ref
#define PTYPE q120_mat1col_product_bbc_precomp
#define XW 8
#define YW 8
#define RW 8
#define PER 4
#else
#define FN q120x2_vec_mat2cols_product_bbc_avx2
#define REFFN q120x2_vec_mat2cols_product_bbc_ref
#define PTYPE q120_mat1col_product_bbc_precomp
#define XW 8
#define YW 16
#define RW 16
#define PER 8
#endif
GHOST uint64_t GI;
static void table(PTYPE* p) {
  p->h = HH;
  for (int k = 0; k < 4; ++k) {
#if PROD == 0
    p->h_pow_red[k] = nondet_u64(); __CPROVER_assume(p->h_pow_red[k] < QS[k]);
#elif PROD == 1
    p->s1h_pow_red[k] = ((uint64_t)1) << HH;
    p->s2l_pow_red[k] = nondet_u64(); p->s2h_pow_red[k] = nondet_u64(); p->s3l_pow_red[k] = nondet_u64(); p->s3h_pow_red[k] = nondet_u64(); p->s4l_pow_red[k] = nondet_u64(); p->s4h_pow_red[k] = nondet_u64();
    __CPROVER_assume(p->s2l_pow_red[k] < QS[k] && p->s2h_pow_red[k] < QS[k] && p->s3l_pow_red[k] < QS[k] && p->s3h_pow_red[k] < QS[k] && p->s4l_pow_red[k] < QS[k] && p->s4h_pow_red[k] < QS[k]);
#else
    p->s2l_pow_red[k] = nondet_u64(); p->s2h_pow_red[k] = nondet_u64();
    __CPROVER_assume(p->s2l_pow_red[k] < QS[k] && p->s2h_pow_red[k] < QS[k]);
#endif
  }
}
// weights of the products of one iteration for the tracked accumulator (row ROW of the block forms)
static void weights(void) {
  SHIM_MUL_PERIOD = PER; SHIM_LANE = LANE;
  for (int j = 0; j < 8; ++j) SHIM_MUL_SHIFT[j] = -1;
#if PROD == 0
  SHIM_MUL_SHIFT[0] = 0;
#elif PROD == 1 && defined(RANGE_ONLY)
  /* no product enters the ghost sum in the range-only run */
#elif PROD == 1
  SHIM_MUL_SHIFT[0] = 0; SHIM_MUL_SHIFT[1] = 32; SHIM_MUL_SHIFT[2] = 32; SHIM_MUL_SHIFT[3] = 64;
#elif PROD == 2
  SHIM_MUL_SHIFT[0] = 0; SHIM_MUL_SHIFT[1] = 0;
#elif PROD == 3
  SHIM_MUL_SHIFT[ROW] = 0; SHIM_MUL_SHIFT[ROW + 2] = 0;                 /* calls: a.lo, b.lo, a.hi, b.hi */
#else
  /* calls: c1a.lo c2a.lo c1a.hi c2a.hi c1b.lo c2b.lo c1b.hi c2b.hi ; rows: 0 = c1a, 1 = c1b, 2 = c2a, 3 = c2b */
  SHIM_MUL_SHIFT[(ROW & 1) * 4 + (ROW >> 1)] = 0; SHIM_MUL_SHIFT[(ROW & 1) * 4 + (ROW >> 1) + 2] = 0;
#endif
}
#define J0 (PROD == 3 ? ROW : PROD == 4 ? ((ROW & 1) * 4 + (ROW >> 1)) : 0) /* ordinal (in the iteration) of the tracked accumulator's first product */
void h_avx2_prod(void) {
  PTYPE p;
  uint64_t ell = nondet_u64();
  __CPROVER_assume(ell <= MAX_ELL);
  table(&p); weights();
  GI = nondet_u64(); __CPROVER_assume(GI < ell);
  SHIM_MUL_IT = 0; SHIM_MUL_J = 0; SHIM_MUL_SUM = 0; SHIM_MUL_NIT = ell; SHIM_MUL_REC_AT = GI;
  uint64_t* x = malloc(ell * XW * 8); uint64_t* y = malloc(ell * YW * 8);   // exactly the declared extents, no alignment
  __CPROVER_assume(x && y);
  uint64_t res[RW];
  FN(&p, ell, (q120b*)res, (const q120b*)x, (const q120c*)y);
  // ---- posts
  const unsigned L = LANE;
  const uint64_t r = res[4 * ROW + L];
#if PROD == 0
  const uint64_t A0 = SHIM_MUL_FIN_A[0], B0 = SHIM_MUL_FIN_B[0];
  __CPROVER_assert(ell == 0 || B0 == p.h_pow_red[L], "avx2 a*a: recombination multiplies by the table's 2^h mod q");
  const uint64_t acc1 = r - SHIM_MUL_FIN_P[0];
  __CPROVER_assert((wide)acc1 + (((wide)A0) << HH) == SHIM_MUL_SUM, "avx2 a*a: result == acc1 + acc2*(2^h mod q) with acc1 + acc2*2^h == exact sum of the products lo32(x_i)*lo32(y_i)");
  __CPROVER_assert(SHIM_MUL_REC_A[0] == (x[4 * GI + L] & M32) && SHIM_MUL_REC_B[0] == (y[4 * GI + L] & M32), "avx2 a*a: product i is formed from x[i], y[i]");
#elif PROD == 1 && defined(RANGE_ONLY)
  /* b*b: the run with the exact 192-bit ghost sum does not finish; this run decides memory safety, no lane addition wraps,
     the recombination operands fit 32 bits */
#elif PROD == 1
  const uint64_t* A = SHIM_MUL_FIN_A; const uint64_t* B = SHIM_MUL_FIN_B;
  __CPROVER_assert(B[0] == p.s1h_pow_red[L] && B[1] == p.s2l_pow_red[L] && B[2] == p.s2h_pow_red[L] && B[3] == p.s3l_pow_red[L] && B[4] == p.s3h_pow_red[L] && B[5] == p.s4l_pow_red[L] && B[6] == p.s4h_pow_red[L], "avx2 b*b: recombination multiplies by the table's reduced powers in order");
  const uint64_t* P = SHIM_MUL_FIN_P;
  const uint64_t s1l = r - P[0] - P[1] - P[2] - P[3] - P[4] - P[5] - P[6];
  __CPROVER_assert(s1l <= MASKH && A[1] <= MASKH && A[3] <= MASKH && A[5] <= MASKH, "avx2 b*b: low parts are below 2^h");
  __CPROVER_assert((wide)s1l + (((wide)A[0]) << HH) + ((((wide)A[1]) + (((wide)A[2]) << HH)) << 32) + ((((wide)A[3]) + (((wide)A[4]) << HH)) << 64) + ((((wide)A[5]) + (((wide)A[6]) << HH)) << 96) == SHIM_MUL_SUM,
                   "avx2 b*b: result is the recombination of s1..s4 with s1 + s2*2^32 + s3*2^64 + s4*2^96 == exact sum of the partial products");
  __CPROVER_assert(SHIM_MUL_REC_A[0] == (x[4 * GI + L] & M32) && SHIM_MUL_REC_B[0] == (y[4 * GI + L] & M32) && SHIM_MUL_REC_A[1] == (x[4 * GI + L] & M32) && SHIM_MUL_REC_B[1] == (y[4 * GI + L] >> 32)
                   && SHIM_MUL_REC_A[2] == (x[4 * GI + L] >> 32) && SHIM_MUL_REC_B[2] == (y[4 * GI + L] & M32) && SHIM_MUL_REC_A[3] == (x[4 * GI + L] >> 32) && SHIM_MUL_REC_B[3] == (y[4 * GI + L] >> 32),
                   "avx2 b*b: the four partial products of term i are xl*yl, xl*yh, xh*yl, xh*yh of x[i], y[i]");
#else
  const uint64_t A0 = SHIM_MUL_FIN_A[2 * ROW], B0 = SHIM_MUL_FIN_B[2 * ROW], A1 = SHIM_MUL_FIN_A[2 * ROW + 1], B1 = SHIM_MUL_FIN_B[2 * ROW + 1];
  __CPROVER_assert(B0 == p.s2l_pow_red[L] && B1 == p.s2h_pow_red[L], "avx2 b*c: recombination multiplies by the table's reduced powers");
  const uint64_t s1 = r - SHIM_MUL_FIN_P[2 * ROW] - SHIM_MUL_FIN_P[2 * ROW + 1];
  __CPROVER_assert(A0 <= MASKH, "avx2 b*c: low part below 2^h");
  __CPROVER_assert((wide)s1 + ((((wide)A0) + (((wide)A1) << HH)) << 32) == SHIM_MUL_SUM, "avx2 b*c: result is the recombination of s1, s2 with s1 + s2*2^32 == exact sum of the products xl*y0 + xh*y1");
  {
    const uint64_t xv = x[(XW * GI) + 4 * (PROD == 2 ? 0 : (ROW & 1)) + L];
    const uint64_t yv = y[(YW * GI) + 4 * (PROD == 2 ? 0 : PROD == 3 ? ROW : ((ROW & 1) + 2 * (ROW >> 1))) + L];
    __CPROVER_assert(SHIM_MUL_REC_A[J0] == (xv & M32) && SHIM_MUL_REC_B[J0] == (yv & M32) && SHIM_MUL_REC_A[J0 + (PROD == 2 ? 1 : 2)] == (xv >> 32) && SHIM_MUL_REC_B[J0 + (PROD == 2 ? 1 : 2)] == (yv >> 32),
                     "avx2 b*c: the two products of term i are xl*y0 and xh*y1 of the row's x[i], y[i]");
  }
#endif
  __CPROVER_assert(ell != 0 || r == 0, "avx2 product: empty product is zero");
  VACUITY_CANARY();
}

// ---- S4 (bounded in ell, every operand value): the AVX2 product returns bit for bit what the reference product returns.
// Layout-a operands are below 2^32 (the layout's domain); b and c operands are any 64-bit words.
#ifndef ELL
#define ELL 3
#endif
void REFFN(PTYPE* precomp, const uint64_t ell, q120b* const res, const q120b* const x, const q120c* const y);
// the reference file's guarded ghost hooks are not observed in this harness
void spqlios_verif_q120_term(uint64_t i, uint64_t j, uint64_t x, uint64_t y, uint64_t p0, uint64_t p1, uint64_t p2, uint64_t p3) {}
void spqlios_verif_q120_final(uint64_t j, uint64_t s1, uint64_t s2, uint64_t s3, uint64_t s4) {}
void h_avx2_eq(void) {
  PTYPE p;
  table(&p);
  uint64_t x[ELL * XW + 1], y[ELL * YW + 1], r1[RW], r2[RW];
  for (int i = 0; i < ELL * XW; ++i) { x[i] = nondet_u64(); if (PROD == 0) __CPROVER_assume(x[i] <= M32); }
  for (int i = 0; i < ELL * YW; ++i) { y[i] = nondet_u64(); if (PROD == 0) __CPROVER_assume(y[i] <= M32); }
  FN(&p, ELL, (q120b*)r1, (const q120b*)x, (const q120c*)y);
  REFFN(&p, ELL, (q120b*)r2, (const q120b*)x, (const q120c*)y);
  __CPROVER_assert(r1[4 * ROW + LANE] == r2[4 * ROW + LANE], "avx2 product == reference product, bit for bit");
  VACUITY_CANARY();
}
