// two threads share one MODULE and call znx_small_single_product for the first time in the process
#include <pthread.h>
#include <stdio.h>
#include <stdlib.h>
#include <stdint.h>
#include "arithmetic/vec_znx_arithmetic.h"
static MODULE* mod;
static void* work(void* arg) {
  uint64_t n = 64; int64_t a[64], b[64], r[64];
  for (int i = 0; i < 64; ++i) { a[i] = i; b[i] = 1 - i; }
  uint8_t* tmp = malloc(znx_small_single_product_tmp_bytes(mod));
  znx_small_single_product(mod, r, a, b, tmp);
  free(tmp); return 0;
}
int main(void) { mod = new_module_info(64, FFT64); pthread_t t[2]; for (int i = 0; i < 2; ++i) pthread_create(&t[i], 0, work, 0); for (int i = 0; i < 2; ++i) pthread_join(t[i], 0); puts("done"); return 0; }
