#!/bin/sh
# offline setup: check the tools exist and the runner imports; nothing is downloaded or built ahead of the checks
set -e
cd "$(dirname "$0")"
for t in cbmc goto-cc goto-instrument kissat gcc python3; do command -v $t >/dev/null || { echo "missing $t"; exit 1; }; done
python3 -c "import vlib.check, vlib.registry; print(len(vlib.registry.all_jobs()), 'jobs registered')"
mkdir -p build evidence replays
# validate the intrinsics model against the hardware (trusted-stub sanity check, DESIGN 4.3)
tools/shimtest.sh || { echo "shim validation failed"; exit 1; }
