// __builtin_cpu_supports has no body under CBMC: nondeterministic result, so that BOTH dispatch outcomes are explored
_Bool nondet_bool(void);
_Bool __builtin_cpu_supports(const char* feature) { (void)feature; return nondet_bool(); }
