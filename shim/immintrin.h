// Shim placed before the system include path for the AVX translation units (DESIGN 4.3).  It takes the compiler's own
// <immintrin.h> and replaces only what CBMC 6.11 mis-models: casts between integer and floating vector types are value
// conversions in CBMC's front end (a __m256i -> __m256d cast converts each lane numerically) whereas the intrinsics
// reinterpret bits.  Everything else comes from the stock header plus the builtin bodies of builtins.c.
#ifndef VERIF_SHIM_IMMINTRIN_H
#define VERIF_SHIM_IMMINTRIN_H
#include "shim_protos.h"
#include_next <immintrin.h>
typedef union { __m256i i; __m256d d; __m256 s; long long q[4]; double f[4]; int w[8]; } shim_u256;
typedef union { __m128i i; __m128d d; long long q[2]; double f[2]; } shim_u128;
static inline __m256d shim_castsi256_pd(__m256i a) { shim_u256 u; u.i = a; return u.d; }
static inline __m256i shim_castpd_si256(__m256d a) { shim_u256 u; u.d = a; return u.i; }
static inline __m128d shim_castsi128_pd(__m128i a) { shim_u128 u; u.i = a; return u.d; }
static inline __m128i shim_castpd_si128(__m128d a) { shim_u128 u; u.d = a; return u.i; }
#undef _mm256_castsi256_pd
#undef _mm256_castpd_si256
#undef _mm_castsi128_pd
#undef _mm_castpd_si128
#define _mm256_castsi256_pd(a) shim_castsi256_pd(a)
#define _mm256_castpd_si256(a) shim_castpd_si256(a)
#define _mm_castsi128_pd(a) shim_castsi128_pd(a)
#define _mm_castpd_si128(a) shim_castpd_si128(a)
// the stock _mm256_mul_epu32/unpack*_epi32/permutevar8x32 cast __v4di to __v8si (different lane count): route them
// through bit-exact unions as well
typedef int shim_v8si __attribute__((vector_size(32)));
typedef long long shim_v4di __attribute__((vector_size(32)));
shim_v4di __builtin_ia32_pmuludq256(shim_v8si, shim_v8si);
shim_v8si __builtin_ia32_punpckldq256(shim_v8si, shim_v8si);
shim_v8si __builtin_ia32_punpckhdq256(shim_v8si, shim_v8si);
shim_v8si __builtin_ia32_permvarsi256(shim_v8si, shim_v8si);
typedef union { __m256i i; shim_v8si w; shim_v4di q; } shim_ui;
static inline __m256i shim_mul_epu32(__m256i a, __m256i b) { shim_ui x, y, r; x.i = a; y.i = b; r.q = __builtin_ia32_pmuludq256(x.w, y.w); return r.i; }
static inline __m256i shim_unpacklo_epi32(__m256i a, __m256i b) { shim_ui x, y, r; x.i = a; y.i = b; r.w = __builtin_ia32_punpckldq256(x.w, y.w); return r.i; }
static inline __m256i shim_unpackhi_epi32(__m256i a, __m256i b) { shim_ui x, y, r; x.i = a; y.i = b; r.w = __builtin_ia32_punpckhdq256(x.w, y.w); return r.i; }
static inline __m256i shim_permutevar8x32_epi32(__m256i a, __m256i idx) { shim_ui x, y, r; x.i = a; y.i = idx; r.w = __builtin_ia32_permvarsi256(x.w, y.w); return r.i; }
static inline __m256i shim_set1_epi32(int v) { shim_ui r; for (int k = 0; k < 8; ++k) r.w[k] = v; return r.i; }
static inline __m256i shim_set_epi32(int e7, int e6, int e5, int e4, int e3, int e2, int e1, int e0) { shim_ui r; r.w[0] = e0; r.w[1] = e1; r.w[2] = e2; r.w[3] = e3; r.w[4] = e4; r.w[5] = e5; r.w[6] = e6; r.w[7] = e7; return r.i; }
static inline __m256i shim_add_epi32(__m256i a, __m256i b) { shim_ui x, y, r; x.i = a; y.i = b; for (int k = 0; k < 8; ++k) r.w[k] = (int)((unsigned)x.w[k] + (unsigned)y.w[k]); return r.i; }
#define _mm256_mul_epu32(a, b) shim_mul_epu32(a, b)
#define _mm256_unpacklo_epi32(a, b) shim_unpacklo_epi32(a, b)
#define _mm256_unpackhi_epi32(a, b) shim_unpackhi_epi32(a, b)
#define _mm256_permutevar8x32_epi32(a, b) shim_permutevar8x32_epi32(a, b)
#define _mm256_set1_epi32(v) shim_set1_epi32(v)
#define _mm256_set_epi32(e7, e6, e5, e4, e3, e2, e1, e0) shim_set_epi32(e7, e6, e5, e4, e3, e2, e1, e0)
#define _mm256_add_epi32(a, b) shim_add_epi32(a, b)
#endif
