// Bodies for the x86 builtins that <immintrin.h> (gcc 12) leaves to the compiler and CBMC does not model: lane-wise C
// on GCC vector types, following the Intel SDM pseudo-code.  TRUSTED STUBS (DESIGN 4.3): cross-checked natively against
// the hardware instructions by tools/shimtest.c at setup.  Everything else in the AVX files (loads, stores, add/sub,
// and/or/xor on integer vectors, set1, casts) is handled by CBMC's own vector support through the stock header.
#include <stdint.h>
#include "shim_protos.h"
typedef unsigned long long v4du __attribute__((vector_size(32)));
static inline uint64_t db(double d) { union { double d; uint64_t u; } x; x.d = d; return x.u; }
static inline double bd(uint64_t u) { union { double d; uint64_t u; } x; x.u = u; return x.d; }
double fma(double, double, double);

v4df __builtin_ia32_vfmaddpd256(v4df a, v4df b, v4df c) { v4df r; for (int i = 0; i < 4; ++i) r[i] = fma(a[i], b[i], c[i]); return r; }
v4df __builtin_ia32_vfmsubpd256(v4df a, v4df b, v4df c) { v4df r; for (int i = 0; i < 4; ++i) { double ci = c[i]; r[i] = fma(a[i], b[i], 0.0 - ci); if (ci == 0.0) r[i] = fma(a[i], b[i], -ci); } return r; }
// fmaddsub: even lanes a*b-c, odd lanes a*b+c
v4df __builtin_ia32_vfmaddsubpd256(v4df a, v4df b, v4df c) { v4df r; for (int i = 0; i < 4; ++i) r[i] = fma(a[i], b[i], (i & 1) ? c[i] : -c[i]); return r; }
v4df __builtin_ia32_vfmsubaddpd256(v4df a, v4df b, v4df c) { v4df r; for (int i = 0; i < 4; ++i) r[i] = fma(a[i], b[i], (i & 1) ? -c[i] : c[i]); return r; }
v4df __builtin_ia32_addsubpd256(v4df a, v4df b) { v4df r; for (int i = 0; i < 4; ++i) r[i] = (i & 1) ? a[i] + b[i] : a[i] - b[i]; return r; }
v4df __builtin_ia32_andpd256(v4df a, v4df b) { v4df r; for (int i = 0; i < 4; ++i) r[i] = bd(db(a[i]) & db(b[i])); return r; }
v4df __builtin_ia32_orpd256(v4df a, v4df b) { v4df r; for (int i = 0; i < 4; ++i) r[i] = bd(db(a[i]) | db(b[i])); return r; }
v4df __builtin_ia32_xorpd256(v4df a, v4df b) { v4df r; for (int i = 0; i < 4; ++i) r[i] = bd(db(a[i]) ^ db(b[i])); return r; }
v4df __builtin_ia32_unpcklpd256(v4df a, v4df b) { v4df r = {a[0], b[0], a[2], b[2]}; return r; }
v4df __builtin_ia32_unpckhpd256(v4df a, v4df b) { v4df r = {a[1], b[1], a[3], b[3]}; return r; }
v4df __builtin_ia32_shufpd256(v4df a, v4df b, int imm) {
  v4df r = {(imm & 1) ? a[1] : a[0], (imm & 2) ? b[1] : b[0], (imm & 4) ? a[3] : a[2], (imm & 8) ? b[3] : b[2]};
  return r;
}
v4df __builtin_ia32_vpermilpd256(v4df a, int imm) {
  v4df r = {(imm & 1) ? a[1] : a[0], (imm & 2) ? a[1] : a[0], (imm & 4) ? a[3] : a[2], (imm & 8) ? a[3] : a[2]};
  return r;
}
v4df __builtin_ia32_permdf256(v4df a, int imm) { v4df r = {a[imm & 3], a[(imm >> 2) & 3], a[(imm >> 4) & 3], a[(imm >> 6) & 3]}; return r; }
v4df __builtin_ia32_vperm2f128_pd256(v4df a, v4df b, int imm) {
  v4df r;
  for (int h = 0; h < 2; ++h) {
    int c = (imm >> (4 * h)) & 0xF;
    double lo = (c & 2) ? ((c & 1) ? b[2] : b[0]) : ((c & 1) ? a[2] : a[0]);
    double hi = (c & 2) ? ((c & 1) ? b[3] : b[1]) : ((c & 1) ? a[3] : a[1]);
    if (c & 8) { lo = 0; hi = 0; }
    r[2 * h] = lo; r[2 * h + 1] = hi;
  }
  return r;
}
v4di __builtin_ia32_permti256(v4di a, v4di b, int imm) {
  v4di r;
  for (int h = 0; h < 2; ++h) {
    int c = (imm >> (4 * h)) & 0xF;
    long long lo = (c & 2) ? ((c & 1) ? b[2] : b[0]) : ((c & 1) ? a[2] : a[0]);
    long long hi = (c & 2) ? ((c & 1) ? b[3] : b[1]) : ((c & 1) ? a[3] : a[1]);
    if (c & 8) { lo = 0; hi = 0; }
    r[2 * h] = lo; r[2 * h + 1] = hi;
  }
  return r;
}
v4di __builtin_ia32_psrlqi256(v4di a, int n) { v4di r; for (int i = 0; i < 4; ++i) r[i] = (n < 0 || n > 63) ? 0 : (long long)((unsigned long long)a[i] >> n); return r; }
v4di __builtin_ia32_psllqi256(v4di a, int n) { v4di r; for (int i = 0; i < 4; ++i) r[i] = (n < 0 || n > 63) ? 0 : (long long)((unsigned long long)a[i] << n); return r; }
v4di __builtin_ia32_psrlv4di(v4di a, v4di n) { v4di r; for (int i = 0; i < 4; ++i) r[i] = ((unsigned long long)n[i] > 63) ? 0 : (long long)((unsigned long long)a[i] >> n[i]); return r; }
v4di __builtin_ia32_psllv4di(v4di a, v4di n) { v4di r; for (int i = 0; i < 4; ++i) r[i] = ((unsigned long long)n[i] > 63) ? 0 : (long long)((unsigned long long)a[i] << n[i]); return r; }
// pmuludq: product of the LOW 32 bits of each 64-bit lane (in SHIM_STRICT mode the library's intent "operands fit 32
// bits" is an assertion: a silent truncation is what C04 forbids)
#ifdef SHIM_GHOST_MUL
// Ghost instrumentation of the multiplication MODEL (verification state only, the returned value is unchanged).  The calls are
// counted as (iteration SHIM_MUL_IT, ordinal in the iteration SHIM_MUL_J) for the first SHIM_MUL_NIT iterations of
// SHIM_MUL_PERIOD calls each, so that a harness can tie "the j-th product of iteration i" to a ghost accumulator without any
// change to the repository code: a product enters the exact sum SHIM_MUL_SUM with weight 2^SHIM_MUL_SHIFT[j] (-1: it belongs
// to another accumulator), the operands of iteration SHIM_MUL_REC_AT are recorded, and the calls AFTER those iterations (the
// recombination) are recorded in SHIM_MUL_FIN_* and carry the obligation "operand fits 32 bits" (inside the loops the library
// deliberately feeds full lanes and uses their low halves).
#ifndef SHIM_WIDE_BITS
#define SHIM_WIDE_BITS 128
#endif
typedef unsigned __CPROVER_bitvector[SHIM_WIDE_BITS] shim_wide;
unsigned long SHIM_MUL_IT, SHIM_MUL_NIT, SHIM_MUL_REC_AT;
unsigned SHIM_MUL_J, SHIM_MUL_PERIOD = 1, SHIM_LANE;
int SHIM_MUL_SHIFT[8];
shim_wide SHIM_MUL_SUM;
unsigned long SHIM_MUL_REC_A[8], SHIM_MUL_REC_B[8], SHIM_MUL_FIN_A[8], SHIM_MUL_FIN_B[8], SHIM_MUL_FIN_P[8];
#endif
v4di __builtin_ia32_pmuludq256(v8si a, v8si b) {
  v4di r;
  for (int i = 0; i < 4; ++i) {
#if defined(SHIM_GHOST_MUL)
    __CPROVER_assert(SHIM_MUL_IT < SHIM_MUL_NIT || i != (int)SHIM_LANE || (a[2 * i + 1] == 0 && b[2 * i + 1] == 0), "mul_epu32 operand exceeds 32 bits (silent truncation)");   /* one run per lane */
#elif defined(SHIM_STRICT)
    __CPROVER_assert(a[2 * i + 1] == 0 && b[2 * i + 1] == 0, "mul_epu32 operand exceeds 32 bits (silent truncation)");
#endif
    r[i] = (long long)((unsigned long long)(unsigned)a[2 * i] * (unsigned long long)(unsigned)b[2 * i]);
  }
#ifdef SHIM_GHOST_MUL
  {
    const unsigned j = SHIM_MUL_J & 7;
    const unsigned long oa = (unsigned)a[2 * SHIM_LANE], ob = (unsigned)b[2 * SHIM_LANE];
    if (SHIM_MUL_IT < SHIM_MUL_NIT) {
      if (SHIM_MUL_SHIFT[j] >= 0) SHIM_MUL_SUM += ((shim_wide)(unsigned long long)r[SHIM_LANE]) << SHIM_MUL_SHIFT[j];
      if (SHIM_MUL_IT == SHIM_MUL_REC_AT) { SHIM_MUL_REC_A[j] = oa; SHIM_MUL_REC_B[j] = ob; }
      SHIM_MUL_J = j + 1;
      if (SHIM_MUL_J == SHIM_MUL_PERIOD) { SHIM_MUL_J = 0; SHIM_MUL_IT++; }
    } else {
      SHIM_MUL_FIN_A[j] = oa; SHIM_MUL_FIN_B[j] = ob; SHIM_MUL_FIN_P[j] = (unsigned long long)r[SHIM_LANE];
      SHIM_MUL_J = j + 1;
    }
  }
#endif
  return r;
}
v4di __builtin_ia32_punpcklqdq256(v4di a, v4di b) { v4di r = {a[0], b[0], a[2], b[2]}; return r; }
v4di __builtin_ia32_punpckhqdq256(v4di a, v4di b) { v4di r = {a[1], b[1], a[3], b[3]}; return r; }
v8si __builtin_ia32_punpckldq256(v8si a, v8si b) { v8si r = {a[0], b[0], a[1], b[1], a[4], b[4], a[5], b[5]}; return r; }
v8si __builtin_ia32_punpckhdq256(v8si a, v8si b) { v8si r = {a[2], b[2], a[3], b[3], a[6], b[6], a[7], b[7]}; return r; }
v8si __builtin_ia32_permvarsi256(v8si a, v8si idx) { v8si r; for (int i = 0; i < 8; ++i) r[i] = a[idx[i] & 7]; return r; }
v4df __builtin_ia32_pd256_pd(v2df a) { v4df r = {a[0], a[1], 0.0, 0.0}; return r; }   // upper half is undefined in hardware; callers overwrite it
v4df __builtin_ia32_vinsertf128_pd256(v4df a, v2df b, int imm) { v4df r = a; if (imm & 1) { r[2] = b[0]; r[3] = b[1]; } else { r[0] = b[0]; r[1] = b[1]; } return r; }
v2df __builtin_ia32_vextractf128_pd256(v4df a, int imm) { v2df r = {(imm & 1) ? a[2] : a[0], (imm & 1) ? a[3] : a[1]}; return r; }
